#!/bin/bash
# applies every seeded change to a scratch copy of /repo (never /repo itself) and runs the property's check against it
# usage: tools/seed_sweep.sh [ids...]   -> one line per seed: id, exit code, first VIOLATION line
cd "$(dirname "$0")/.."
SCR=${SEED_SCRATCH:-/tmp/seedrepo_$$}
ids=${@:-$(ls seeded)}
for seed in $ids; do
  id=${seed%[a-z]}          # seeded/C01b is a second seeded change for property C01
  [ -f contracts/$id.py ] || { echo "$seed: no check"; continue; }
  if grep -q '"neutralised_by"' seeded/$seed/meta.json 2>/dev/null; then echo "$seed: neutralised by a later repair of the repository (not swept)"; continue; fi
  rm -rf $SCR; mkdir -p $SCR
  (cd /repo && git archive HEAD) | tar -x -C $SCR
  if ! (cd $SCR && git apply --unsafe-paths --directory=$SCR /verif/seeded/$seed/patch.diff 2>/dev/null || patch -s -p1 -d $SCR < seeded/$seed/patch.diff); then echo "$seed: patch does not apply"; continue; fi
  out=$(PYVC_REPO=$SCR PYTHONPATH=$SCR PYVC_EVIDENCE_DIR=$SCR/.evidence PYVC_REPLAY_DIR=$SCR/.replays ./check $id 2>&1)
  code=$?
  echo "$seed: exit $code :: $(echo "$out" | grep -m1 '^VIOLATION' | cut -c1-220)"
done
rm -rf $SCR
