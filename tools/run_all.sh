#!/bin/bash
# re-run every claimed check on the current tree (refreshes evidence/*.json); prints one line per check
cd "$(dirname "$0")/.."
for c in $(jq -r '.checks[].property_id // .checks[].id' MANIFEST.json 2>/dev/null | sort -u); do
  ./check $c ${TIER:+--tier $TIER} 2>&1 | tail -1 | cut -c1-160
done
