#!/usr/bin/env python3
"""Regenerates MANIFEST.json from contracts/registry.py (single source of truth for what is claimed)."""
import json, os, sys
ROOT = os.path.dirname(os.path.dirname(os.path.abspath(__file__)))
sys.path.insert(0, ROOT)
from contracts.registry import CLAIMED, NOT_APPLICABLE

props = [json.loads(l) for l in open(os.path.join(ROOT, "properties.jsonl"))]
ids = [p["id"] for p in props]
checks = []
for pid in ids:
    if pid in CLAIMED:
        c = CLAIMED[pid]
        checks.append({
            "property_id": pid,
            "quick_cmd": f"./check {pid} --tier quick",
            "thorough_cmd": f"./check {pid} --tier thorough",
            "evidence_file": f"evidence/{pid}.json",
            "replay_cmd_template": f"./check {pid} --replay {{path}}",
            "engine": "pyvc",
            "level_claimed": {"category": c.get("category", "proof"), "text": c["text"], "design_ref": c.get("design_ref", f"DESIGN.md section 4 {pid}")},
            "level_note": c["note"],
            "technique": c.get("technique", "contract-based deductive verification: VCs generated from the real Python source (pyvc), discharged by z3/cvc5/polynomial normaliser"),
        })
na = []
for pid in ids:
    if pid not in CLAIMED:
        na.append({"property_id": pid, "reason": NOT_APPLICABLE.get(pid, "check not built yet in this round (construction order of DESIGN.md section 8); not claimed until its obligations are discharged")})
man = {
    "version": 1,
    "setup_cmd": "./setup.sh",
    "hooks": {"guard": "E2NIEE_PANDAPOWER_VERIF", "enable": "none needed: contracts are sidecar files under /verif/contracts, the source under /repo is read as is",
              "baseline_off_cmd": "cd /repo && /venv/bin/python -m pytest -ra -q -p no:cacheprovider --timeout=900 --continue-on-collection-errors",
              "source_commits": [], "add_only": True},
    "engines": [{"name": "pyvc", "path": "pyvc/", "serves_properties": sorted(CLAIMED),
                 "kind_free_text": "own verification-condition generator: symbolic executor over the Python AST of the real functions (re-read from /repo each run) + sidecar contracts; back ends z3 5.1 (API), cvc5 1.0 (CLI), sympy polynomial normaliser; counter-models replayed on the real code"}],
    "checks": checks,
    "not_applicable": na,
    "notes": "Exit codes of ./check: 0 held (KNOWN-FINDING lines possible), 1 VIOLATION, 2 undecided, 3 checker error. Known findings: known_findings.json.",
}
json.dump(man, open(os.path.join(ROOT, "MANIFEST.json"), "w"), indent=1)
print("claimed", sorted(CLAIMED), "n/a", len(na))
