import json, sys
pid = sys.argv[1]
for line in open('/verif/properties.jsonl'):
    p = json.loads(line)
    if p["id"] == pid:
        break
t = open('/verif/tools/seed_prompt.txt').read()
q = p.get("quantifier", {})
print(t.format(PID=pid, TITLE=p["title"], STATEMENT=p["statement"], QUANT=q.get("text", ""), FILES=", ".join(p["anchors"]["files"])) +
      "\nNever use `git stash` (the stash is shared between worktrees). Use at most 6 pytest workers (-n 6).\n")
