# replay of C34/runpp/passed-overrides-stored[algorithm]@p10xp0
# scenario: net.user_pf_options stores 'algorithm'; runpp is called with 'algorithm' passed explicitly.
# oracle (property C34): the options the power flow runs with must not depend on the stored entry.
import sys, copy
import pandapower as pp
import pandapower.networks as nw
from pandapower.run import runpp, set_user_pf_options
import inspect

key = 'algorithm'
stored_key = 'algorithm'     # the name under which the option of this argument is stored
sig = inspect.signature(runpp)
default = sig.parameters[key].default if key in sig.parameters else None
model_arg, model_arg_ok = 'nr', True
alts = {'algorithm': 'bfsw', 'calculate_voltage_angles': False, 'init': 'flat', 'max_iteration': 17, 'tolerance_mva': 1e-06, 'trafo_model': 'pi', 'trafo_loading': 'power', 'enforce_q_lims': True, 'check_connectivity': False, 'voltage_depend_loads': False, 'consider_line_temperature': True, 'distributed_slack': True, 'tdpf': False, 'tdpf_delay_s': None, 'trafo3w_losses': 'star', 'v_debug': True, 'delta_q': 0.001, 'switch_rx_ratio': 3, 'numba': False, 'neglect_open_switch_branches': True, 'only_v_results': True, 'use_umfpack': False, 'permc_spec': 'NATURAL', 'lightsim2grid': False, 'tdpf_update_r_theta': False, 'delta': 25.0, 'zz_generic_option': 42}
candidates = []
if model_arg_ok:
    candidates.append(model_arg)
if key in sig.parameters:
    candidates.append(default)
candidates.append(alts.get(key))
stored_candidates = [alts.get(stored_key), default, 123]

def options_after(passed_value, stored, with_store):
    net = nw.example_simple()
    if with_store:
        set_user_pf_options(net, **{stored_key: stored})
    try:
        runpp(net, **{key: passed_value})
        return ("return", dict(net._options))
    except Exception as e:
        # the way runpp terminates is part of the observable result
        return ("raise " + type(e).__name__, dict(getattr(net, "_options", {})))

def same(a, b):
    if a[0] != b[0]:
        return False
    if a[0] != "return":
        return True
    ka, kb = a[1], b[1]
    if set(ka) != set(kb):
        return False
    for x in ka:
        va, vb = ka[x], kb[x]
        try:
            if not (va == vb or (va != va and vb != vb)):
                return False
        except Exception:
            if repr(va) != repr(vb):
                return False
    return True

for pv in candidates:
    for sv in stored_candidates:
        try:
            if sv == pv:
                continue
        except Exception:
            pass
        a = options_after(pv, sv, True)
        b = options_after(pv, sv, False)
        if not same(a, b):
            diff = {x: (a[1].get(x), b[1].get(x)) for x in set(a[1]) | set(b[1]) if a[1].get(x) != b[1].get(x)}
            print("VIOLATION REPRODUCED: runpp(net, %s=%r) with user_pf_options[%r]=%r" % (key, pv, stored_key, sv))
            print("  exit with stored option: %s ; without: %s ; differing options: %r" % (a[0], b[0], diff))
            sys.exit(1)
print("not reproduced for key", key)
sys.exit(0)
