"""Native replay for C13: run_control with tap controllers on several levels, repeated calls, controllers without initial run.
exit 1 = violation reproduced."""
import sys
import copy
import numpy as np
import pandapower as pp
import pandapower.control as ct


def _net():
    net = pp.create_empty_network()
    b0 = pp.create_bus(net, 110.); b1 = pp.create_bus(net, 20.); b2 = pp.create_bus(net, 20.); b3 = pp.create_bus(net, 0.4)
    pp.create_ext_grid(net, b0, vm_pu=1.03)
    pp.create_transformer_from_parameters(net, b0, b1, sn_mva=40., vn_hv_kv=110., vn_lv_kv=20., vkr_percent=0.4, vk_percent=12., pfe_kw=20.,
                                          i0_percent=0.05, tap_side="hv", tap_neutral=0, tap_min=-9, tap_max=9, tap_step_percent=1.5,
                                          tap_pos=0, tap_changer_type="Ratio")
    pp.create_line_from_parameters(net, b1, b2, 6., 0.12, 0.11, 250., 0.4)
    pp.create_transformer_from_parameters(net, b2, b3, sn_mva=0.63, vn_hv_kv=20., vn_lv_kv=0.4, vkr_percent=1.1, vk_percent=6., pfe_kw=1.,
                                          i0_percent=0.2, tap_side="hv", tap_neutral=0, tap_min=-2, tap_max=2, tap_step_percent=2.5,
                                          tap_pos=0, tap_changer_type="Ratio")
    pp.create_load(net, b2, 12., 3.); pp.create_load(net, b3, 0.3, 0.05)
    return net


def _check(net, tag, fails, discrete):
    fresh = copy.deepcopy(net)
    fresh.controller = fresh.controller.iloc[0:0]
    pp.runpp(fresh)
    for tab in ("res_bus", "res_trafo", "res_line"):
        a, b = net[tab].values.astype(float), fresh[tab].values.astype(float)
        if a.shape != b.shape or not np.allclose(a, b, rtol=1e-8, atol=1e-9, equal_nan=True):
            fails.append(f"{tag}: {tab} after run_control differs from a fresh power flow of the final state (max abs diff "
                         f"{np.nanmax(np.abs(a - b)) if a.shape == b.shape else float('nan'):.3g})")
            break
    t = net.trafo
    if ((t.tap_pos < t.tap_min) | (t.tap_pos > t.tap_max)).any():
        fails.append(f"{tag}: tap outside [tap_min, tap_max]")
    for c in discrete:
        vm = fresh.res_bus.vm_pu.at[c.trafobus if np.isscalar(c.trafobus) else c.trafobus[0]]
        tid = c.element_index if np.isscalar(c.element_index) else c.element_index[0]
        tp = net.trafo.tap_pos.at[tid]
        at_limit = tp in (net.trafo.tap_min.at[tid], net.trafo.tap_max.at[tid])
        if not (c.vm_lower_pu < vm < c.vm_upper_pu) and not at_limit:
            fails.append(f"{tag}: voltage {vm:.4f} of the controlled bus outside [{c.vm_lower_pu}, {c.vm_upper_pu}] and tap {tp} not at a limit")


def main():
    fails = []
    # (1) tap controllers on two levels
    net = _net()
    c1 = ct.DiscreteTapControl(net, 0, 0.99, 1.01, level=0)
    c2 = ct.DiscreteTapControl(net, 1, 0.98, 1.02, level=1)
    try:
        pp.runpp(net, run_control=True)
        _check(net, "two levels", fails, [c1, c2])
    except Exception as e:
        if "not converge" not in str(e).lower() and "NotConverged" not in type(e).__name__:
            fails.append(f"two levels: {type(e).__name__}: {e}")
    # (2) ConstControl on a lower level (no initial run) + tap controller; repeated calls with a changed load
    net = _net()
    import pandas as pd
    from pandapower.timeseries import DFData
    ds = DFData(pd.DataFrame({"p": [12., 25.]}))
    ct.ConstControl(net, "load", "p_mw", element_index=[0], profile_name=["p"], data_source=ds)
    c1 = ct.DiscreteTapControl(net, 0, 0.99, 1.01)
    for step, extra in ((0, 0.), (1, 14.)):
        net.load.at[0, "p_mw"] = 12. + extra
        try:
            ct.run_control(net)
            _check(net, f"ConstControl(level -1) + tap control, call {step}", fails, [c1])
        except Exception as e:
            if "NotConverged" not in type(e).__name__:
                fails.append(f"repeated calls: {type(e).__name__}: {e}")
    # (3) continuous tap controller at its limit
    net = _net()
    net.trafo["tap_pos"] = net.trafo.tap_pos.astype(float)
    ct.ContinuousTapControl(net, 0, 1.12, tol=1e-4)
    try:
        ct.run_control(net)
        _check(net, "continuous tap control towards a limit", fails, [])
    except Exception as e:
        if "NotConverged" not in type(e).__name__:
            fails.append(f"continuous: {type(e).__name__}: {e}")
    for f in fails:
        print("REPRODUCED:", f)
    if not fails:
        print("not reproduced: run_control returns converged controllers, fresh results and taps inside their limits")
    sys.exit(1 if fails else 0)


def main_edited():
    """the network is edited after the controller was created (tap changer moved to the other side / sign of the step reversed): on return the
    voltage is in the band, or the tap is at the limit beyond which the voltage would move further towards the band"""
    fails = []
    for edit in ("tap_side hv -> lv", "tap_step_percent -> negative", "no edit"):
        for kind in ("discrete", "continuous"):
            net = _net()
            if kind == "continuous":
                net.trafo["tap_pos"] = net.trafo.tap_pos.astype(float)
                c = ct.ContinuousTapControl(net, 0, 1.0, tol=1e-3)
                lo, hi = 1.0 - 1e-3, 1.0 + 1e-3
            else:
                c = ct.DiscreteTapControl(net, 0, 0.99, 1.02)
                lo, hi = 0.99, 1.02
            if edit.startswith("tap_side"):
                net.trafo.at[0, "tap_side"] = "lv"
            elif edit.startswith("tap_step"):
                net.trafo.at[0, "tap_step_percent"] = -1.5
            net.load.at[0, "p_mw"] = 30.
            try:
                ct.run_control(net)
            except Exception as e:
                if "NotConverged" in type(e).__name__ or "not converge" in str(e).lower():
                    continue
                fails.append(f"{edit}, {kind}: {type(e).__name__}: {e}")
                continue
            bus = net.trafo.lv_bus.at[0]
            vm = net.res_bus.vm_pu.at[bus]
            if lo <= vm <= hi:
                continue
            tp = net.trafo.tap_pos.at[0]
            # outside the band: is there a neighbouring tap position inside the limits that brings the voltage closer to the band?
            dist = lambda v: max(lo - v, v - hi, 0.)
            for step in (-1, 1):
                if not (net.trafo.tap_min.at[0] <= tp + step <= net.trafo.tap_max.at[0]):
                    continue
                trial = copy.deepcopy(net)
                trial.controller = trial.controller.iloc[0:0]
                trial.trafo.at[0, "tap_pos"] = tp + step
                pp.runpp(trial)
                if dist(trial.res_bus.vm_pu.at[bus]) < dist(vm) - 1e-6:
                    fails.append(f"{edit}, {kind} tap control: returns as converged with vm = {vm:.4f} outside [{lo}, {hi}] at tap {tp}, although tap "
                                 f"{tp + step} (inside the limits) gives vm = {trial.res_bus.vm_pu.at[bus]:.4f}")
                    break
    for f in fails:
        print("REPRODUCED:", f)
    if not fails:
        print("not reproduced: tap controllers follow edits of the network made after their creation")
    sys.exit(1 if fails else 0)


if __name__ == "__main__":
    main()
