"""Native replay for C09: calculations on a used net object equal the same calculation on a fresh copy of the current state.
exit 1 = violation reproduced."""
import sys
import copy
import numpy as np
import pandas as pd
import pandapower as pp


def fresh_copy(net):
    """the current state rebuilt on a never-used net (element tables only: cached attributes and results are not copied)"""
    n = pp.create_empty_network(sn_mva=net.sn_mva, f_hz=net.f_hz)
    for k in net.keys():
        if isinstance(net[k], pd.DataFrame) and not k.startswith("res_") and not k.startswith("_") and len(net[k]):
            n[k] = net[k].copy(deep=True)
    return n


def _net():
    net = pp.create_empty_network()
    b = pp.create_buses(net, 6, 20.)
    pp.create_ext_grid(net, b[0], vm_pu=1.01)
    for f, t in ((0, 1), (1, 2), (3, 4), (4, 5)):
        pp.create_line_from_parameters(net, b[f], b[t], 3., .12, .11, 250., .6)
    pp.create_switch(net, b[2], b[3], "b", closed=True, z_ohm=0.05)      # coupler with impedance
    pp.create_switch(net, b[1], 1, "l", closed=True)
    pp.create_load(net, b[2], 2., .5); pp.create_load(net, b[5], 3., .8)
    return net


def same(a, b, what, fails):
    x, y = a.res_bus.vm_pu.values, b.res_bus.vm_pu.values
    if not np.allclose(x, y, rtol=0, atol=1e-7, equal_nan=True):
        fails.append(f"{what}: res_bus differs from the fresh copy (max abs diff {np.nanmax(np.abs(np.nan_to_num(x) - np.nan_to_num(y))):.3g})")


def main():
    fails = []
    # (1) impedance coupler closed in a first run, opened afterwards
    for run in (lambda n, **k: pp.runpp(n, **k), lambda n, **k: pp.rundcpp(n), lambda n, **k: pp.runpp(n, numba=False, **k)):
        net = _net()
        run(net)
        net.switch.at[0, "closed"] = False
        run(net)
        f = fresh_copy(net); run(f)
        same(net, f, "coupler with z_ohm > 0 opened after a calculation", fails)
    # (2) island reconnected, init='results'
    net = _net()
    net.switch.at[1, "closed"] = False
    pp.runpp(net)
    net.switch.at[1, "closed"] = True
    f = fresh_copy(net); pp.runpp(f)
    try:
        pp.runpp(net, init="results")
        same(net, f, "init='results' after an unsupplied part was reconnected", fails)
    except pp.LoadflowNotConverged:
        fails.append("init='results' after an unsupplied part was reconnected: does not converge, the fresh copy does")
    # (3) bus taken out of service and back
    net = _net()
    pp.runpp(net)
    net.bus.at[4, "in_service"] = False
    pp.runpp(net)
    net.bus.at[4, "in_service"] = True
    pp.runpp(net)
    f = fresh_copy(net); pp.runpp(f)
    same(net, f, "bus out of service and back in service", fails)
    for x in fails:
        print("REPRODUCED:", x)
    if not fails:
        print("not reproduced: used net objects give the results of fresh copies")
    sys.exit(1 if fails else 0)


def main_lookups():
    """every ext_grid is switched off after a first calculation; a gen with slack=True (not the first gen) remains the reference"""
    fails = []

    def build():
        net = pp.create_empty_network()
        b = pp.create_buses(net, 4, 110.)
        pp.create_ext_grid(net, b[0], vm_pu=1.02)
        for f, t in ((0, 1), (1, 2), (2, 3), (3, 0)):
            pp.create_line_from_parameters(net, b[f], b[t], 20., 0.06, 0.3, 10., 1.)
        pp.create_gen(net, b[2], p_mw=10., vm_pu=1.01)
        pp.create_gen(net, b[2], p_mw=15., vm_pu=1.01, slack=True)
        pp.create_gen(net, b[1], p_mw=20., vm_pu=1.0)
        pp.create_load(net, b[3], 60., 10.); pp.create_load(net, b[1], 25., 5.)
        return net
    for name, second in (("rundcpp", lambda n: pp.rundcpp(n)), ("runpp(init='results')", lambda n: pp.runpp(n, init="results")),
                         ("runpp", lambda n: pp.runpp(n))):
        net = build()
        pp.runpp(net)
        net.ext_grid["in_service"] = False
        second(net)
        f = fresh_copy(net)
        (pp.rundcpp if name == "rundcpp" else pp.runpp)(f)
        if not np.allclose(net.res_gen.p_mw.values, f.res_gen.p_mw.values, atol=1e-5):
            fails.append(f"{name} after all ext_grids were switched off: gen powers {net.res_gen.p_mw.values.round(3)} on the used net, "
                         f"{f.res_gen.p_mw.values.round(3)} on a fresh copy of the same state")
        same(net, f, f"{name} after all ext_grids were switched off", fails)
    for x in fails:
        print("REPRODUCED:", x)
    if not fails:
        print("not reproduced: used net objects give the results of fresh copies")
    sys.exit(1 if fails else 0)


def main_selection():
    """short circuit with check_connectivity=False after machines were switched off: the in-service selection of this call is used"""
    import pandapower.shortcircuit as sc
    fails = []

    def build(on):
        net = pp.create_empty_network()
        b0 = pp.create_bus(net, 110.); b1 = pp.create_bus(net, 20.); b2 = pp.create_bus(net, 20.)
        pp.create_ext_grid(net, b0, s_sc_max_mva=1000., rx_max=0.1, s_sc_min_mva=800., rx_min=0.2)
        pp.create_transformer_from_parameters(net, b0, b1, sn_mva=40., vn_hv_kv=110., vn_lv_kv=20., vk_percent=12., vkr_percent=0.5, pfe_kw=10., i0_percent=0.1)
        pp.create_line_from_parameters(net, b1, b2, 5., 0.2, 0.35, 10., 0.4, endtemp_degree=80.)
        pp.create_gen(net, b2, p_mw=5., vn_kv=21., sn_mva=25., xdss_pu=0.15, rdss_ohm=0.1, cos_phi=0.85, in_service=on)
        pp.create_sgen(net, b1, p_mw=2., sn_mva=5., k=1.2, in_service=on)
        return net
    ref = build(False)
    sc.calc_sc(ref, case="max")
    net = build(True)
    sc.calc_sc(net, case="max")
    net.gen["in_service"] = False; net.sgen["in_service"] = False
    try:
        sc.calc_sc(net, case="max", check_connectivity=False)
        d = np.abs(net.res_bus_sc.ikss_ka.values - ref.res_bus_sc.ikss_ka.values)
        if d.max() > 1e-6:
            k = int(np.argmax(d))
            fails.append(f"calc_sc(check_connectivity=False) after gen and sgen were switched off: ikss at bus {k} = {net.res_bus_sc.ikss_ka.values[k]:.3f} kA, "
                         f"the network in service gives {ref.res_bus_sc.ikss_ka.values[k]:.3f} kA")
    except Exception as e:
        fails.append(f"calc_sc(check_connectivity=False) on a used net: {type(e).__name__}: {str(e)[:80]}")
    fresh = build(False)
    try:
        sc.calc_sc(fresh, case="max", check_connectivity=False)
        if not np.allclose(fresh.res_bus_sc.ikss_ka.values, ref.res_bus_sc.ikss_ka.values, atol=1e-6):
            fails.append("calc_sc(check_connectivity=False) on a fresh net differs from the default call")
    except Exception as e:
        fails.append(f"calc_sc(check_connectivity=False) on a fresh net: {type(e).__name__}: {str(e)[:80]}")
    for x in fails:
        print("REPRODUCED:", x)
    if not fails:
        print("not reproduced: used net objects give the results of fresh copies")
    sys.exit(1 if fails else 0)


def main_dc_after_ac():
    """an AC power flow, a change, then a DC power flow on the same object: every result column equals the DC run of a fresh copy"""
    fails = []
    net = pp.create_empty_network()
    b = pp.create_buses(net, 3, 110.)
    pp.create_ext_grid(net, b[0], vm_pu=1.02)
    pp.create_gen(net, b[1], p_mw=10., vm_pu=1.01)
    for f, t in ((0, 1), (1, 2)):
        pp.create_line_from_parameters(net, b[f], b[t], 20., 0.06, 0.3, 10., 1.)
    pp.create_load(net, b[2], 30., 10.)
    pp.runpp(net)
    net.load.at[0, "q_mvar"] = 40.
    pp.rundcpp(net)
    f = fresh_copy(net); pp.rundcpp(f)
    for tab in ("res_bus", "res_ext_grid", "res_gen", "res_load", "res_line"):
        for col in f[tab].columns:
            if col in net[tab] and f[tab][col].dtype.kind == "f":
                x, y = net[tab][col].values.astype(float), f[tab][col].values.astype(float)
                if not np.allclose(x, y, atol=1e-8, equal_nan=True):
                    fails.append(f"rundcpp after runpp: {tab}.{col} = {np.round(x, 3)} on the used net, {np.round(y, 3)} on a fresh copy")
        extra = [c for c in net[tab].columns if c not in f[tab].columns]
        if extra:
            fails.append(f"rundcpp after runpp: {tab} keeps the columns {extra} of the earlier calculation")
    for x in fails[:6]:
        print("REPRODUCED:", x)
    if not fails:
        print("not reproduced: used net objects give the results of fresh copies")
    sys.exit(1 if fails else 0)


if __name__ == "__main__":
    main()
