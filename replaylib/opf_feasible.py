"""Native replay for C16: AC OPF results inside the declared limits and reproduced by a power flow.  exit 1 = reproduced."""
import sys
import copy
import numpy as np
import pandapower as pp


def _net(q_price):
    net = pp.create_empty_network()
    b0 = pp.create_bus(net, 20., min_vm_pu=0.95, max_vm_pu=1.05)
    b1 = pp.create_bus(net, 20., min_vm_pu=0.95, max_vm_pu=1.05)
    b2 = pp.create_bus(net, 20., min_vm_pu=0.95, max_vm_pu=1.05)
    pp.create_ext_grid(net, b0, vm_pu=1.01, min_p_mw=-50., max_p_mw=50., min_q_mvar=-50., max_q_mvar=50.)
    pp.create_line_from_parameters(net, b0, b1, 4., 0.12, 0.11, 250., 0.6, max_loading_percent=100.)
    pp.create_line_from_parameters(net, b1, b2, 3., 0.12, 0.11, 250., 0.6, max_loading_percent=100.)
    pp.create_load(net, b1, 3., 1.2)
    pp.create_load(net, b2, 2., 0.9)
    # controllable load / storage with reactive ranges that are not symmetric around zero
    pp.create_load(net, b2, 2.5, 0.4, controllable=True, min_p_mw=0.5, max_p_mw=2.5, min_q_mvar=0.0, max_q_mvar=0.8)
    pp.create_storage(net, b1, 0.6, 5., q_mvar=0.3, controllable=True, min_p_mw=-0.2, max_p_mw=0.9, min_q_mvar=0.1, max_q_mvar=0.6)
    pp.create_sgen(net, b2, 1.0, 0.1, controllable=True, min_p_mw=0.2, max_p_mw=1.5, min_q_mvar=-0.3, max_q_mvar=0.7)
    pp.create_gen(net, b1, 1.5, vm_pu=1.0, controllable=True, min_p_mw=0.5, max_p_mw=2.0, min_q_mvar=-0.2, max_q_mvar=0.9)
    pp.create_poly_cost(net, 0, "ext_grid", cp1_eur_per_mw=20., cq1_eur_per_mvar=q_price)
    pp.create_poly_cost(net, 2, "load", cp1_eur_per_mw=-30.)
    pp.create_poly_cost(net, 0, "storage", cp1_eur_per_mw=-5.)
    pp.create_poly_cost(net, 0, "sgen", cp1_eur_per_mw=10.)
    pp.create_poly_cost(net, 0, "gen", cp1_eur_per_mw=15.)
    return net


def main():
    fails = []
    tol = 1e-4
    for q_price in (8., -8., 0.5):
        net = _net(q_price)
        try:
            pp.runopp(net, delta=1e-10)
        except Exception as e:
            print(f"note: OPF did not converge for q price {q_price}: {type(e).__name__}")
            continue
        tag = f"q price {q_price}"
        for et in ("load", "storage", "sgen", "gen", "ext_grid"):
            tab, res = net[et], net["res_" + et]
            ctrl = tab.controllable.fillna(False).values.astype(bool) if "controllable" in tab else np.ones(len(tab), bool)
            if et == "ext_grid":
                ctrl = np.ones(len(tab), bool)
            for idx in tab.index[ctrl]:
                for q, lo, hi in (("p_mw", "min_p_mw", "max_p_mw"), ("q_mvar", "min_q_mvar", "max_q_mvar")):
                    if lo in tab and hi in tab and not np.isnan(tab.at[idx, lo]):
                        v = res.at[idx, q]
                        if v < tab.at[idx, lo] - tol or v > tab.at[idx, hi] + tol:
                            fails.append(f"{tag}: {et} {idx}: {q}={v:.5f} outside declared range [{tab.at[idx, lo]:g}, {tab.at[idx, hi]:g}]")
            for idx in tab.index[~ctrl]:
                if et in ("load", "sgen", "storage") and not np.isclose(res.at[idx, "p_mw"], tab.at[idx, "p_mw"] * tab.at[idx, "scaling"], atol=tol):
                    fails.append(f"{tag}: non-controllable {et} {idx} does not keep its setpoint")
        vm = net.res_bus.vm_pu
        if (vm < net.bus.min_vm_pu - tol).any() or (vm > net.bus.max_vm_pu + tol).any():
            fails.append(f"{tag}: bus voltage outside its limits")
        if (net.res_line.loading_percent > net.line.max_loading_percent + 1e-2).any():
            fails.append(f"{tag}: line loading above its limit")
        # replay the dispatch as a plain power flow
        pf = copy.deepcopy(net)
        for et in ("load", "storage", "sgen"):
            pf[et]["p_mw"] = net["res_" + et].p_mw.values / pf[et].scaling.values
            pf[et]["q_mvar"] = net["res_" + et].q_mvar.values / pf[et].scaling.values
        pf.gen["p_mw"] = net.res_gen.p_mw.values
        pf.gen["vm_pu"] = net.res_gen.vm_pu.values
        pf.ext_grid["vm_pu"] = net.res_ext_grid.index.map(lambda i: net.res_bus.vm_pu.at[net.ext_grid.bus.at[i]]).values
        pp.runpp(pf)
        if not np.allclose(pf.res_bus.vm_pu.values, net.res_bus.vm_pu.values, atol=1e-5):
            fails.append(f"{tag}: a power flow with the OPF dispatch does not reproduce the OPF voltages (max diff "
                         f"{np.max(np.abs(pf.res_bus.vm_pu.values - net.res_bus.vm_pu.values)):.2e})")
    for f in fails:
        print("REPRODUCED:", f)
    if not fails:
        print("not reproduced: OPF results respect the declared limits and are valid power flows")
    sys.exit(1 if fails else 0)


def main_gen_vm():
    """gens with their own voltage limits, one looser than its bus on the upper side, another looser on the lower side"""
    fails = []
    for gmin, l3 in ((0.98, (40., 25.)), (0.99, (20., 10.))):
        net = pp.create_empty_network()
        b = [pp.create_bus(net, 110., min_vm_pu=0.95, max_vm_pu=1.05) for _ in range(4)]
        pp.create_ext_grid(net, b[0], vm_pu=1.0, min_p_mw=-500, max_p_mw=500, min_q_mvar=-500, max_q_mvar=500)
        for f, t in ((0, 1), (1, 2), (2, 3)):
            pp.create_line_from_parameters(net, b[f], b[t], 40., 0.06, 0.4, 10., 1., max_loading_percent=100)
        pp.create_load(net, b[1], 60., 30.); pp.create_load(net, b[2], 50., 30.); pp.create_load(net, b[3], *l3)
        pp.create_gen(net, b[1], p_mw=20., vm_pu=1.0, controllable=True, min_p_mw=0, max_p_mw=60, min_q_mvar=-50, max_q_mvar=50, min_vm_pu=0.90, max_vm_pu=1.02)
        pp.create_gen(net, b[3], p_mw=20., vm_pu=1.0, controllable=True, min_p_mw=0, max_p_mw=60, min_q_mvar=-50, max_q_mvar=50, min_vm_pu=gmin, max_vm_pu=1.2)
        pp.create_poly_cost(net, 0, "ext_grid", cp1_eur_per_mw=10.)
        pp.create_poly_cost(net, 0, "gen", cp1_eur_per_mw=30.)
        pp.create_poly_cost(net, 1, "gen", cp1_eur_per_mw=100., cq1_eur_per_mvar=60.)
        try:
            pp.runopp(net)
        except Exception as e:
            print(f"note: OPF did not converge ({type(e).__name__})")
            continue
        for g in net.gen.index:
            bus = net.gen.bus.at[g]
            lo = max(net.bus.min_vm_pu.at[bus], net.gen.min_vm_pu.at[g])
            hi = min(net.bus.max_vm_pu.at[bus], net.gen.max_vm_pu.at[g])
            vm = net.res_bus.vm_pu.at[bus]
            if vm < lo - 1e-4 or vm > hi + 1e-4:
                fails.append(f"gen {g} (min_vm_pu {net.gen.min_vm_pu.at[g]}, max_vm_pu {net.gen.max_vm_pu.at[g]}) at bus {bus} (limits "
                             f"[{net.bus.min_vm_pu.at[bus]}, {net.bus.max_vm_pu.at[bus]}]): the converged OPF has vm = {vm:.4f}, outside [{lo}, {hi}]")
            ppc_lo, ppc_hi = net._ppc["bus"][net._pd2ppc_lookups["bus"][bus], [12, 11]]
            if abs(ppc_lo - lo) > 1e-9 or abs(ppc_hi - hi) > 1e-9:
                fails.append(f"gen {g} at bus {bus}: the OPF was given the voltage range [{ppc_lo}, {ppc_hi}] for this bus, declared is [{lo}, {hi}]")
    for f in fails:
        print("REPRODUCED:", f)
    if not fails:
        print("not reproduced: gen buses keep the intersection of the bus limits and the gen's own voltage limits")
    sys.exit(1 if fails else 0)


def main_dc_shift():
    """DC OPF with a phase-shifting transformer whose loading limit binds, in both flow directions and for both signs of the shift"""
    fails = []
    for shift in (0., 30., 150., -30.):
        for gen_side in ("lv", "hv"):
            net = pp.create_empty_network()
            hv = pp.create_bus(net, 110.); lv = pp.create_bus(net, 20.)
            a, b = (hv, lv) if gen_side == "lv" else (lv, hv)        # slack + load on a, cheap generation on b
            pp.create_ext_grid(net, a, min_p_mw=-300., max_p_mw=300.)
            pp.create_load(net, a, 50., 0.)
            pp.create_gen(net, b, p_mw=10., vm_pu=1., min_p_mw=0., max_p_mw=70., min_q_mvar=-50., max_q_mvar=50., controllable=True)
            pp.create_transformer_from_parameters(net, hv, lv, sn_mva=25., vn_hv_kv=110., vn_lv_kv=20., vkr_percent=0.4, vk_percent=12., pfe_kw=10.,
                                                  i0_percent=0.05, shift_degree=shift, max_loading_percent=100.)
            pp.create_poly_cost(net, 0, "ext_grid", cp1_eur_per_mw=10.)
            pp.create_poly_cost(net, 0, "gen", cp1_eur_per_mw=1.)
            try:
                pp.rundcopp(net)
            except Exception as e:
                print(f"note: shift {shift}, generation on {gen_side}: {type(e).__name__}")
                continue
            ld = net.res_trafo.loading_percent.at[0]
            if ld > 100. + 1e-3:
                fails.append(f"shift_degree {shift}, cheap generation on the {gen_side} side: the converged DC OPF loads the transformer with {ld:.1f} % "
                             f"(max_loading_percent 100), gen dispatch {net.res_gen.p_mw.at[0]:.2f} MW")
    for f in fails:
        print("REPRODUCED:", f)
    if not fails:
        print("not reproduced: DC OPF results respect the loading limit of phase-shifting transformers")
    sys.exit(1 if fails else 0)


def main_dcline():
    """bounded stand-in: AC OPF with a lossy dcline; the reported dcline result is a valid operating point of the dcline model (a power flow with
    the dispatched p_mw reproduces p_to_mw), for both signs of the set point direction"""
    fails = []
    for L, l0, p0, sn in ((0., 0., 20., 1.), (5., 0., 20., 1.), (0., 1., 20., 1.), (5., 1., 20., 1.), (4., 0.5, -20., 1.), (2., 0.5, 20., 10.),
                          (0., 1.5, 20., 100.)):
        net = pp.create_empty_network(sn_mva=sn)
        b = [pp.create_bus(net, 110., min_vm_pu=0.9, max_vm_pu=1.1) for _ in range(4)]
        pp.create_ext_grid(net, b[0], min_p_mw=-500, max_p_mw=500, min_q_mvar=-500, max_q_mvar=500)
        pp.create_line_from_parameters(net, b[0], b[1], 30., 0.06, 0.3, 10., 1., max_loading_percent=100)
        pp.create_line_from_parameters(net, b[2], b[3], 30., 0.06, 0.3, 10., 1., max_loading_percent=100)
        pp.create_line_from_parameters(net, b[0], b[3], 90., 0.06, 0.3, 10., 1., max_loading_percent=100)
        pp.create_dcline(net, b[1], b[2], p_mw=p0, loss_percent=L, loss_mw=l0, vm_from_pu=1.01, vm_to_pu=1.02, max_p_mw=80.,
                         min_q_from_mvar=-30, max_q_from_mvar=30, min_q_to_mvar=-30, max_q_to_mvar=30)
        pp.create_load(net, b[3], 60., 10.); pp.create_load(net, b[2], 30., 5.); pp.create_load(net, b[1], 10., 2.)
        pp.create_poly_cost(net, 0, "ext_grid", cp1_eur_per_mw=10.)
        pp.create_poly_cost(net, 0, "dcline", cp1_eur_per_mw=0.5)
        try:
            pp.runopp(net)
        except Exception as e:
            print(f"note: OPF with dcline loss_percent={L}, loss_mw={l0}, p_mw={p0}, sn_mva={sn}: {type(e).__name__}")
            continue
        r = net.res_dcline.iloc[0]
        pf = copy.deepcopy(net)
        pf.dcline.at[0, "p_mw"] = r.p_from_mw if p0 >= 0 else -abs(r.p_to_mw)
        pp.runpp(pf)
        q = pf.res_dcline.iloc[0]
        if abs(q.p_from_mw - r.p_from_mw) > 1e-4 or abs(q.p_to_mw - r.p_to_mw) > 1e-4:
            fails.append(f"dcline loss_percent={L}, loss_mw={l0}, set point {p0}, net.sn_mva={sn}: OPF reports p_from = {r.p_from_mw:.5f}, p_to = {r.p_to_mw:.5f}; a power "
                         f"flow with that dispatch gives p_from = {q.p_from_mw:.5f}, p_to = {q.p_to_mw:.5f}")
    for f in fails:
        print("REPRODUCED:", f)
    if not fails:
        print("not reproduced: dcline results of the OPF are operating points of the dcline model")
    sys.exit(1 if fails else 0)


def main_more():
    """voltage limits of buses fused by a closed bus-bus switch; non-controllable gens with a scaling factor"""
    fails = []
    # (1) bus 2 (limits 0.98 .. 1.02) is fused with the gen bus 3 (0.9 .. 1.1)
    for numba in (True, False):
        net = pp.create_empty_network()
        b = [pp.create_bus(net, 110., min_vm_pu=0.9, max_vm_pu=1.1) for _ in range(4)]
        net.bus.loc[b[2], ["min_vm_pu", "max_vm_pu"]] = [0.98, 1.02]
        pp.create_ext_grid(net, b[0], vm_pu=1.0, min_p_mw=-500, max_p_mw=500, min_q_mvar=-500, max_q_mvar=500)
        pp.create_line_from_parameters(net, b[0], b[1], 40., 0.06, 0.3, 10., 1., max_loading_percent=100)
        pp.create_line_from_parameters(net, b[1], b[3], 40., 0.06, 0.3, 10., 1., max_loading_percent=100)
        pp.create_switch(net, b[3], b[2], "b", closed=True)
        pp.create_gen(net, b[3], p_mw=30., vm_pu=1.05, controllable=True, min_p_mw=0., max_p_mw=80., min_q_mvar=-60., max_q_mvar=60.)
        pp.create_load(net, b[1], 50., 10.); pp.create_load(net, b[2], 20., 5.)
        pp.create_poly_cost(net, 0, "ext_grid", cp1_eur_per_mw=50.); pp.create_poly_cost(net, 0, "gen", cp1_eur_per_mw=10., cq1_eur_per_mvar=-1.)
        try:
            pp.runopp(net, numba=numba)
        except Exception as e:
            print(f"note: OPF with fused buses: {type(e).__name__}")
            continue
        vm = net.res_bus.vm_pu
        for x in net.bus.index:
            if vm.at[x] > net.bus.max_vm_pu.at[x] + 1e-5 or vm.at[x] < net.bus.min_vm_pu.at[x] - 1e-5:
                fails.append(f"buses 2 and 3 fused by a closed bus-bus switch (numba={numba}): converged OPF reports vm_pu = {vm.at[x]:.5f} at bus {x} with "
                             f"limits [{net.bus.min_vm_pu.at[x]}, {net.bus.max_vm_pu.at[x]}]")
    # (2) a non-controllable gen with scaling 0.5: the OPF result is a power flow result for the OPF dispatch
    net = pp.create_empty_network()
    b = [pp.create_bus(net, 110., min_vm_pu=0.9, max_vm_pu=1.1) for _ in range(3)]
    pp.create_ext_grid(net, b[0], min_p_mw=-500, max_p_mw=500, min_q_mvar=-500, max_q_mvar=500)
    pp.create_line_from_parameters(net, b[0], b[1], 40., 0.06, 0.3, 10., 1., max_loading_percent=100)
    pp.create_line_from_parameters(net, b[1], b[2], 40., 0.06, 0.3, 10., 1., max_loading_percent=100)
    pp.create_gen(net, b[2], p_mw=40., vm_pu=1.01, scaling=0.5, controllable=False, min_p_mw=0., max_p_mw=80., min_q_mvar=-60., max_q_mvar=60.)
    pp.create_gen(net, b[1], p_mw=10., vm_pu=1.0, controllable=True, min_p_mw=0., max_p_mw=30., min_q_mvar=-60., max_q_mvar=60.)
    pp.create_load(net, b[1], 50., 10.); pp.create_load(net, b[2], 30., 5.)
    pp.create_poly_cost(net, 0, "ext_grid", cp1_eur_per_mw=50.); pp.create_poly_cost(net, 1, "gen", cp1_eur_per_mw=60.)
    pp.runopp(net)
    pf = copy.deepcopy(net)
    pf.gen.loc[1, "p_mw"] = net.res_gen.p_mw.at[1]          # the dispatch of the controllable gen
    pf.gen["vm_pu"] = net.res_gen.vm_pu.values
    pf.ext_grid["vm_pu"] = net.res_ext_grid.index.map(lambda i: net.res_bus.vm_pu.at[net.ext_grid.bus.at[i]])
    pp.runpp(pf)
    if abs(pf.res_gen.p_mw.at[0] - net.res_gen.p_mw.at[0]) > 1e-4 or abs(pf.res_ext_grid.p_mw.at[0] - net.res_ext_grid.p_mw.at[0]) > 1e-3:
        fails.append(f"non-controllable gen with p_mw = 40, scaling = 0.5: OPF reports p = {net.res_gen.p_mw.at[0]:.4f} (ext_grid "
                     f"{net.res_ext_grid.p_mw.at[0]:.4f}); a power flow with the OPF dispatch gives p = {pf.res_gen.p_mw.at[0]:.4f} (ext_grid "
                     f"{pf.res_ext_grid.p_mw.at[0]:.4f})")
    for f in fails:
        print("REPRODUCED:", f)
    if not fails:
        print("not reproduced: voltage limits of fused buses and fixed set points hold")
    sys.exit(1 if fails else 0)


if __name__ == "__main__":
    main()
