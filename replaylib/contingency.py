"""Native replay for C14 / C15: run_contingency(_parallel) against a brute-force recomputation (one power flow per case)."""
import sys
import copy
import itertools
import numpy as np
import pandapower as pp
import pandapower.networks as nw
from pandapower.contingency.contingency import run_contingency


def nets():
    n1 = nw.case9()
    n1.line["max_loading_percent"] = 60.
    yield "case9", n1
    n2 = nw.case14()
    n2.line["max_loading_percent"] = 50.
    n2.trafo["max_loading_percent"] = 50.
    yield "case14", n2
    # ring with a parallel line
    n3 = pp.create_empty_network()
    bs = [pp.create_bus(n3, 110.) for _ in range(4)]
    pp.create_ext_grid(n3, bs[0])
    for a, b in ((0, 1), (1, 2), (2, 3), (3, 0), (0, 1)):
        pp.create_line(n3, bs[a], bs[b], 10., "149-AL1/24-ST1A 110.0", max_loading_percent=30.)
    for b in bs[1:]:
        pp.create_load(n3, b, 30., 5.)
    yield "ring", n3
    # every connection is a double circuit (identical lines: exact ties in the N-1 maxima), the line index is not ascending
    n4 = pp.create_empty_network()
    bs = [pp.create_bus(n4, 110.) for _ in range(4)]
    pp.create_ext_grid(n4, bs[0])
    idx = iter([11, 5, 8, 2, 9, 3, 7, 0])
    for a, b in ((0, 1), (1, 2), (2, 3), (3, 0)):
        for _ in range(2):
            pp.create_line(n4, bs[a], bs[b], 12., "149-AL1/24-ST1A 110.0", max_loading_percent=30., index=next(idx))
    for b in bs[1:]:
        pp.create_load(n4, b, 25., 4.)
    yield "double circuits with an unsorted line index", n4
    # the loading limit is an optional column: lines with a limit, transformers without
    n5 = nw.case14()
    n5.line["max_loading_percent"] = 50.
    if "max_loading_percent" in n5.trafo:
        n5.trafo.drop(columns="max_loading_percent", inplace=True)
    yield "case14 without a loading limit of the transformers", n5


def brute(net, cases):
    """independent recomputation"""
    res = {}
    vals = {}
    order = [(el, i) for el, v in cases.items() for i in v["index"]]
    for el, i in order:
        if not net[el].at[i, "in_service"]:
            continue
        n = copy.deepcopy(net)
        n[el].at[i, "in_service"] = False
        try:
            pp.runpp(n)
        except Exception:
            continue
        vals[(el, i)] = {"bus": n.res_bus.vm_pu.values.copy(),
                         **{e: n["res_" + e].loading_percent.values.copy() for e in ("line", "trafo", "trafo3w") if len(n[e])}}
    return order, vals


def check_sequential(name, net, cases, fails, raise_errors=False):
    before = {e: net[e].in_service.values.copy() for e in ("line", "trafo", "trafo3w", "bus")}
    order, vals = brute(net, cases)
    try:
        res = run_contingency(net, cases, raise_errors=raise_errors)
    except Exception as e:
        res = None
    for e in before:
        if not np.array_equal(before[e], net[e].in_service.values):
            fails.append(f"{name}: in_service flags of {e} not restored")
    if res is None:
        return
    check_tables(name, net, res, fails)
    pp.runpp(net)
    for e in ("line", "trafo", "trafo3w"):
        if not len(net[e]) or e not in res:
            continue
        idx = net[e].index.values
        limit = net[e].max_loading_percent.values if "max_loading_percent" in net[e] else None
        for pos, lab in enumerate(idx):
            col = [(c, v[e][pos]) for c, v in vals.items() if c != (e, lab) and not np.isnan(v[e][pos])]
            if not col:
                continue
            if "max_loading_percent" not in res[e] or "min_loading_percent" not in res[e]:
                fails.append(f"{name}: no max_loading_percent / min_loading_percent reported for {e} (true max of {e} {lab}: "
                             f"{max(v for _, v in col):.4f})")
                break
            mx, mn = max(v for _, v in col), min(v for _, v in col)
            if not np.isclose(res[e]["max_loading_percent"][pos], mx, rtol=1e-6, atol=1e-8):
                fails.append(f"{name}: {e} {lab} max_loading_percent {res[e]['max_loading_percent'][pos]:.6f} != true max {mx:.6f}")
            if not np.isclose(res[e]["min_loading_percent"][pos], mn, rtol=1e-6, atol=1e-8):
                fails.append(f"{name}: {e} {lab} min_loading_percent {res[e]['min_loading_percent'][pos]:.6f} != true min {mn:.6f}")
            ce, ci = res[e]["cause_element"][pos], res[e]["cause_index"][pos]
            producing = [c for c, v in col if np.isclose(v, mx, rtol=1e-9, atol=1e-10)]
            if (ce, ci) not in producing:
                fails.append(f"{name}: {e} {lab}: cause ({ce}, {ci}) does not produce the reported max loading {mx:.4f} "
                             f"(cases producing it: {producing}; case order {order})")
            if not np.isclose(res[e]["loading_percent"][pos], net["res_" + e].loading_percent.values[pos], rtol=1e-6, atol=1e-8):
                fails.append(f"{name}: N-0 loading of {e} {lab} differs from a plain power flow")
        if limit is not None:
            for pos, lab in enumerate(idx):
                if (e, lab) not in vals:
                    continue
                v = vals[(e, lab)]
                over = any(np.any(v[x][~np.isnan(v[x])] > net[x].max_loading_percent.values[~np.isnan(v[x])])
                           for x in ("line", "trafo", "trafo3w") if x in v and "max_loading_percent" in net[x])
                if bool(res[e]["causes_overloading"][pos]) != bool(over):
                    fails.append(f"{name}: causes_overloading of {e} {lab} is {res[e]['causes_overloading'][pos]} but overloads={over}")
    for pos, lab in enumerate(net.bus.index.values):
        col = [v["bus"][pos] for c, v in vals.items() if not np.isnan(v["bus"][pos])]
        if col and not (np.isclose(res["bus"]["max_vm_pu"][pos], max(col), atol=1e-8) and np.isclose(res["bus"]["min_vm_pu"][pos], min(col), atol=1e-8)):
            fails.append(f"{name}: bus {lab} min/max vm_pu wrong")


def check_tables(name, net, res, fails):
    """what run_contingency writes to the result tables is what it returns"""
    for e, d in res.items():
        tab = net["res_" + e]
        for var, val in d.items():
            if var == "index":
                continue
            if var not in tab.columns:
                fails.append(f"{name}: res_{e} has no column {var}")
                continue
            got = tab.loc[d["index"], var].values
            if val.dtype == object or got.dtype == object:
                same = all((x == y) or (x is None and (y is None or y != y)) for x, y in zip(val, got))
            else:
                same = np.allclose(got.astype(float), val.astype(float), rtol=1e-9, atol=1e-12, equal_nan=True)
            if not same:
                fails.append(f"{name}: res_{e}.{var} = {np.asarray(got)[:6]} differs from the returned {np.asarray(val)[:6]}")


def main_tables():
    """run_contingency on a net that already carries the results of an earlier analysis (a second run after a change of the loads,
    started from the previous results, so that the result tables are kept)"""
    fails = []
    done = 0
    for name, net in nets():
        cases = {"line": {"index": list(net.line.index.values)}}
        run_contingency(net, cases)
        net.load["p_mw"] *= 1.1
        try:
            res = run_contingency(net, cases, init="results")
        except Exception:
            continue        # the N-0 case does not converge from the kept results (case9): nothing is returned or written
        done += 1
        check_tables(name + " (second analysis with loads * 1.1, init='results': the result tables of the first analysis are kept)", net, res, fails)
        if fails:
            break
    if not fails and done < 3:
        print("replay broken: fewer than 3 networks evaluated")
        sys.exit(3)
    if fails:
        print("VIOLATION REPRODUCED:", fails[0][:600])
        sys.exit(1)
    print("not reproduced")
    sys.exit(0)


def main(clause=None):
    fails = []
    for name, net in nets():
        lines = list(net.line.index.values)
        orders = [lines, lines[::-1], lines[1:] + lines[:1]]
        for order in orders:
            cases = {"line": {"index": list(order)}}
            if len(net.trafo):
                cases["trafo"] = {"index": list(net.trafo.index.values)}
            check_sequential(name, copy.deepcopy(net), cases, fails)
            if fails:
                break
        if fails:
            break
    if not fails:
        # a failing case with raise_errors=True must still restore the flags
        net = nw.case9()
        def bad(n, **kw):
            if not n.line.in_service.all():
                raise RuntimeError("does not converge")
            pp.runpp(n, **kw)
        before = net.line.in_service.values.copy()
        try:
            run_contingency(net, {"line": {"index": [2, 3]}}, contingency_evaluation_function=bad, raise_errors=True)
        except RuntimeError:
            pass
        if not np.array_equal(before, net.line.in_service.values):
            fails.append("case9: in_service flags not restored after a failing N-1 case with raise_errors=True")
    if fails:
        print("VIOLATION REPRODUCED:", fails[0])
        sys.exit(1)
    print("not reproduced")
    sys.exit(0)


def main_parallel():
    from pandapower.contingency.contingency_parallel import run_contingency_parallel
    fails = []
    for name, net in nets():
        lines = list(net.line.index.values)
        cases = {"line": {"index": lines}}
        if len(net.trafo):
            cases["trafo"] = {"index": list(net.trafo.index.values)}
        ref = run_contingency(copy.deepcopy(net), cases)
        for n_procs in (1, 2, 3):
            res = run_contingency_parallel(copy.deepcopy(net), cases, n_procs=n_procs)
            for e in ref:
                for k in ref[e]:
                    a, b = ref[e][k], res[e].get(k)
                    if b is None:
                        fails.append(f"{name} n_procs={n_procs}: key {e}/{k} missing")
                        continue
                    if a.dtype == object:
                        same = all(x == y for x, y in zip(a, b))
                    else:
                        same = np.allclose(a.astype(float), b.astype(float), rtol=1e-7, atol=1e-9, equal_nan=True)
                    if not same:
                        fails.append(f"{name} n_procs={n_procs}: {e}/{k}: parallel {b} != sequential {a}")
            if fails:
                break
        if fails:
            break
    if fails:
        print("VIOLATION REPRODUCED:", fails[0][:600])
        sys.exit(1)
    print("not reproduced")
    sys.exit(0)


def main_parallel_options():
    """options of the analysis itself: raise_errors given explicitly, N-1 power flows started from the previous results"""
    from pandapower.contingency.contingency_parallel import run_contingency_parallel
    fails = []

    def differs(ref, res):
        for e in ref:
            for k in ref[e]:
                a, b = ref[e][k], res[e].get(k)
                if b is None:
                    return f"{e}/{k} missing"
                if a.dtype == object:
                    if not all(x == y for x, y in zip(a, b)):
                        return f"{e}/{k}"
                elif not np.allclose(a.astype(float), b.astype(float), rtol=1e-6, atol=1e-8, equal_nan=True):
                    return f"{e}/{k}: parallel {np.round(b.astype(float), 4)[:6]} sequential {np.round(a.astype(float), 4)[:6]}"
        return None
    name, net = [x for x in nets() if x[0] == "case14"][0]
    cases = {"line": {"index": list(net.line.index.values)}}
    pp.runpp(net)          # the net carries results: a warm start keeps (and shares) the result tables
    for tag, kw in (("raise_errors=False", dict(raise_errors=False)),
                    ("pf_options_nminus1={'init': 'results'} on a net with results", dict(pf_options={}, pf_options_nminus1={"init": "results"}))):
        ref = run_contingency(copy.deepcopy(net), cases, **kw)
        for n_procs in (1, 2, 3):
            try:
                res = run_contingency_parallel(copy.deepcopy(net), cases, n_procs=n_procs, **kw)
            except Exception as e:
                fails.append(f"case14, {tag}, n_procs={n_procs}: run_contingency_parallel raises {type(e).__name__}: {str(e)[:90]} (run_contingency "
                             f"accepts the same call)")
                continue
            d = differs(ref, res)
            if d:
                fails.append(f"case14, {tag}, n_procs={n_procs}: {d}")
    if fails:
        for f in fails:
            print("REPRODUCED:", f[:500])
        sys.exit(1)
    print("not reproduced")
    sys.exit(0)


def main_worker():
    """the parallel worker must evaluate a copy: the net it is given is unchanged afterwards (also when the case fails)"""
    from pandapower.contingency.contingency_parallel import _run_single_contingency
    fails = []
    rv = {"bus": ["vm_pu"], "line": ["loading_percent"]}
    def bad(n, **kw):
        raise RuntimeError("does not converge")
    for fn, name in ((pp.runpp, "converging case"), (bad, "failing case")):
        for raise_errors in (False, True):
            net = nw.case9()
            pp.runpp(net)
            before = copy.deepcopy(net.line)
            try:
                _run_single_contingency(("line", 2), net, {}, rv, fn, raise_errors)
            except RuntimeError:
                pass
            if not before.equals(net.line):
                diff = [c for c in before.columns if not before[c].equals(net.line[c])]
                fails.append(f"worker ({name}, raise_errors={raise_errors}) changed net.line columns {diff}: "
                             f"in_service now {net.line.in_service.values.tolist()}")
    if fails:
        print("VIOLATION REPRODUCED:", fails[0])
        sys.exit(1)
    print("not reproduced")
    sys.exit(0)
