"""Native replay for C01: nodal balance of element results against branch flows at every bus.  exit 1 = reproduced."""
import sys
import copy
import numpy as np
import pandapower as pp


def balance(net, tol=1e-5):
    bad = []
    for b in net.bus.index:
        if np.isnan(net.res_bus.vm_pu.at[b]):
            continue
        p = q = 0.
        for et, sign in (("load", 1), ("storage", 1), ("sgen", -1), ("gen", -1), ("ext_grid", -1), ("shunt", 1), ("ward", 1), ("xward", 1)):
            if len(net[et]):
                m = net[et].bus.values == b
                p += sign * net["res_" + et].p_mw.values[m].sum()
                q += sign * net["res_" + et].q_mvar.values[m].sum()
        if len(net.dcline):
            # dcline terminals are bus elements: p_from_mw / p_to_mw are what the dcline takes from its from / to bus
            for col, pc, qc in (("from_bus", "p_from_mw", "q_from_mvar"), ("to_bus", "p_to_mw", "q_to_mvar")):
                m = net.dcline[col].values == b
                p += net.res_dcline[pc].values[m].sum()
                q += net.res_dcline[qc].values[m].sum()
        fp = fq = 0.
        for tab, sides in (("line", (("from_bus", "from"), ("to_bus", "to"))), ("trafo", (("hv_bus", "hv"), ("lv_bus", "lv"))),
                           ("impedance", (("from_bus", "from"), ("to_bus", "to")))):
            if len(net[tab]):
                for col, s in sides:
                    m = net[tab][col].values == b
                    fp += net["res_" + tab][f"p_{s}_mw"].values[m].sum()
                    fq += net["res_" + tab][f"q_{s}_mvar"].values[m].sum()
        if abs(p + fp) > tol or abs(q + fq) > tol:
            bad.append(f"bus {b}: element consumption {p:.6f} MW / {q:.6f} Mvar, branch flows leaving {fp:.6f} / {fq:.6f}")
        if abs(net.res_bus.p_mw.at[b] - p) > tol:
            bad.append(f"bus {b}: res_bus.p_mw {net.res_bus.p_mw.at[b]:.6f} != net element consumption {p:.6f}")
        if abs(net.res_bus.q_mvar.at[b] - q) > tol:
            bad.append(f"bus {b}: res_bus.q_mvar {net.res_bus.q_mvar.at[b]:.6f} != net element consumption {q:.6f}")
    return bad


def _ring(slack_weights=(1., 1.), gen_weight=0.):
    net = pp.create_empty_network()
    b = pp.create_buses(net, 4, 20.)
    for w in slack_weights:
        pp.create_ext_grid(net, b[0], vm_pu=1.01, slack_weight=w)
    pp.create_gen(net, b[0], p_mw=3., vm_pu=1.01, slack_weight=gen_weight)
    pp.create_gen(net, b[2], p_mw=1.5, vm_pu=1.0, slack_weight=0.)
    for f, t in ((0, 1), (1, 2), (2, 3), (3, 0)):
        pp.create_line_from_parameters(net, b[f], b[t], 3., .12, .11, 250., .6)
    pp.create_load(net, b[1], 6., 2.); pp.create_load(net, b[3], 4., 1.); pp.create_sgen(net, b[3], 1., .2)
    return net


def main():
    fails = []
    for sw, gw in (((1., 1.), 0.), ((0., 0.), 0.), ((1.,), 0.), ((0.,), 0.), ((2., 1.), 0.)):
        net = _ring(sw, gw)
        pp.runpp(net)
        for d in balance(net):
            fails.append(f"ext_grid slack weights {sw}: {d}")
    for f in fails[:8]:
        print("REPRODUCED:", f)
    if not fails:
        print("not reproduced: nodal balance holds at every bus of the replay networks")
    sys.exit(1 if fails else 0)


def main_zip():
    net = pp.create_empty_network()
    b = pp.create_buses(net, 3, 20.)
    pp.create_ext_grid(net, b[0])
    pp.create_line_from_parameters(net, b[0], b[1], 4., .12, .11, 250., .6)
    pp.create_line_from_parameters(net, b[1], b[2], 4., .12, .11, 250., .6)
    pp.create_load(net, b[2], 1., .3, const_z_p_percent=100., const_z_q_percent=100.)
    pp.create_load(net, b[2], 3., .9)
    pp.runpp(net, voltage_depend_loads=True)
    bad = balance(net, tol=1e-4)
    for d in bad:
        print("REPRODUCED: constant-impedance + constant-power load at one bus:", d)
    if not bad:
        print("not reproduced: nodal balance holds with mixed ZIP loads at one bus")
    sys.exit(1 if bad else 0)


def main_single_slack():
    """networks for which the fast single-slack result routine is a candidate: one ext_grid, no gens; shunt-type elements whose rated
    powers cancel in total (capacitor + reactor, wards with opposite constant-impedance parts, a shunt with q = -p) must still be balanced"""
    fails = []
    for name, adder in (
            ("capacitor and reactor of equal rating at different buses", lambda n, b: (pp.create_shunt(n, b[1], q_mvar=-1.5, p_mw=0.), pp.create_shunt(n, b[3], q_mvar=1.5, p_mw=0.))),
            ("two wards whose constant-impedance parts cancel", lambda n, b: (pp.create_ward(n, b[1], 0.1, 0.05, 0.8, 0.4), pp.create_ward(n, b[2], 0.1, 0.05, -0.8, -0.4))),
            ("one shunt with p_mw = q_mvar", lambda n, b: (pp.create_shunt(n, b[2], q_mvar=0.9, p_mw=0.9),)),
            ("no shunt", lambda n, b: ())):
        net = pp.create_empty_network()
        b = pp.create_buses(net, 4, 20.)
        pp.create_ext_grid(net, b[0], vm_pu=1.02)
        for f, t in ((0, 1), (1, 2), (2, 3)):
            pp.create_line_from_parameters(net, b[f], b[t], 5., 0.12, 0.11, 250., 0.6)
        pp.create_load(net, b[3], 3., 1.); pp.create_load(net, b[2], 2., .5)
        adder(net, b)
        for kw in (dict(), dict(numba=False)):
            pp.runpp(net, **kw)
            for m in balance(net):
                fails.append(f"{name} {kw}: {m}")
    for f in fails:
        print("REPRODUCED:", f)
    if not fails:
        print("not reproduced: nodal balance holds with cancelling shunt elements and a single slack")
    sys.exit(1 if fails else 0)


def main_zip_machines():
    """voltage dependent loads at the bus of an ext_grid / of a gen whose voltage is not 1 p.u."""
    fails = []
    for numba in (True, False):
        net = pp.create_empty_network()
        b = pp.create_buses(net, 4, 20.)
        pp.create_ext_grid(net, b[0], vm_pu=1.05)
        for f, t in ((0, 1), (1, 2), (2, 3)):
            pp.create_line_from_parameters(net, b[f], b[t], 5., 0.12, 0.11, 250., 0.6)
        pp.create_gen(net, b[1], p_mw=1., vm_pu=1.04)
        pp.create_load(net, b[0], 2., 1., const_z_p_percent=100., const_z_q_percent=100.)
        pp.create_load(net, b[1], 2., 1., const_z_p_percent=60., const_i_p_percent=20., const_z_q_percent=100.)
        pp.create_load(net, b[2], 3., 1.)
        pp.create_load(net, b[3], 4., 1., const_z_p_percent=100., const_z_q_percent=100.)
        pp.runpp(net, numba=numba)
        for m in balance(net):
            fails.append(f"numba={numba}: {m}")
    for f in fails:
        print("REPRODUCED:", f)
    if not fails:
        print("not reproduced: nodal balance holds with voltage dependent loads at machine buses")
    sys.exit(1 if fails else 0)


def main_zip_sgen():
    """a voltage dependent load and an sgen at one bus"""
    net = pp.create_empty_network()
    b = pp.create_buses(net, 3, 20.)
    pp.create_ext_grid(net, b[0], vm_pu=1.0)
    pp.create_line_from_parameters(net, b[0], b[1], 8., 0.12, 0.11, 250., 0.6)
    pp.create_line_from_parameters(net, b[1], b[2], 8., 0.12, 0.11, 250., 0.6)
    pp.create_load(net, b[2], 4., 1., const_z_p_percent=100., const_z_q_percent=100.)
    pp.create_sgen(net, b[2], 1.5, 0.3)
    pp.runpp(net)
    fails = balance(net)
    for f in fails:
        print("REPRODUCED: constant-impedance load and sgen at one bus:", f)
    if not fails:
        print("not reproduced: nodal balance holds with a voltage dependent load next to an sgen")
    sys.exit(1 if fails else 0)


def main_zip_fused():
    """two busbar sections fused by a closed bus-bus switch, a constant-impedance load on one, a constant-power load on the other"""
    fails = []
    net = pp.create_empty_network()
    b = pp.create_buses(net, 4, 20.)
    pp.create_ext_grid(net, b[0], vm_pu=1.0)
    pp.create_line_from_parameters(net, b[0], b[1], 8., 0.12, 0.11, 250., 0.6)
    pp.create_line_from_parameters(net, b[1], b[2], 8., 0.12, 0.11, 250., 0.6)
    pp.create_switch(net, b[2], b[3], et="b", closed=True)
    pp.create_load(net, b[2], 4., 1., const_z_p_percent=100., const_z_q_percent=100.)
    pp.create_load(net, b[3], 2., 1.)
    pp.runpp(net)
    taken = net.res_load.p_mw.sum(), net.res_load.q_mvar.sum()
    delivered = -net.res_line.p_to_mw.at[1], -net.res_line.q_to_mvar.at[1]
    if abs(taken[0] - delivered[0]) > 1e-5 or abs(taken[1] - delivered[1]) > 1e-5:
        fails.append(f"fused busbar sections: the loads report {taken[0]:.6f} MW / {taken[1]:.6f} Mvar, the line delivers "
                     f"{delivered[0]:.6f} / {delivered[1]:.6f}")
    for f in fails:
        print("REPRODUCED:", f)
    if not fails:
        print("not reproduced: nodal balance holds with voltage dependent loads on fused busbar sections")
    sys.exit(1 if fails else 0)


def main_zip_all():
    codes = []
    for fn in (main_zip, main_zip_machines):
        try:
            fn()
        except SystemExit as e:
            codes.append(e.code or 0)
    sys.exit(1 if 1 in codes else max(codes + [0]))


def main_elements():
    """bounded stand-in: fixed networks with every kind of bus element the deductive part does not reach (dcline terminals, storage, ward,
    xward, shunt next to machines), AC power flow: nodal balance and res_bus against the elements' own results"""
    fails = []
    net = pp.create_empty_network()
    b = pp.create_buses(net, 5, 110.)
    pp.create_ext_grid(net, b[0], vm_pu=1.0)
    for f, t in ((0, 1), (2, 3), (0, 3), (3, 4)):
        pp.create_line_from_parameters(net, b[f], b[t], 30., 0.06, 0.3, 10., 1.)
    pp.create_dcline(net, b[1], b[2], p_mw=20., loss_percent=1.5, loss_mw=0.3, vm_from_pu=1.01, vm_to_pu=1.02)
    pp.create_load(net, b[3], 40., 10.); pp.create_load(net, b[1], 5., 1.); pp.create_load(net, b[2], 3., 1.)
    pp.create_storage(net, b[4], p_mw=2., max_e_mwh=10., q_mvar=0.5)
    pp.create_ward(net, b[4], 1., 0.3, 0.5, 0.2); pp.create_shunt(net, b[3], q_mvar=-4., p_mw=0.1)
    pp.create_gen(net, b[4], p_mw=6., vm_pu=1.01)
    pp.runpp(net)
    for d in balance(net):
        fails.append(f"network with a dcline: {d}")
    for f in fails[:8]:
        print("REPRODUCED:", f)
    if not fails:
        print("not reproduced: nodal balance and res_bus hold on the stand-in networks")
    sys.exit(1 if fails else 0)


if __name__ == "__main__":
    {"main": main, "zip": main_zip, "single_slack": main_single_slack, "zip_machines": main_zip_machines}[sys.argv[1] if len(sys.argv) > 1 else "main"]()


def main_tables_and_facts():
    """a shunt that follows a step table at step 0; DC power flow of a net with an SSC"""
    import pandas as pd
    fails = []
    net = pp.create_empty_network()
    b = [pp.create_bus(net, 20.) for _ in range(4)]
    pp.create_ext_grid(net, b[0], vm_pu=1.02)
    for i in range(3):
        pp.create_line(net, b[i], b[i + 1], 3., "NA2XS2Y 1x185 RM/25 12/20 kV")
    pp.create_load(net, b[1], 2., 0.5); pp.create_load(net, b[3], 1., 0.2)
    net["shunt_characteristic_table"] = pd.DataFrame({"id_characteristic": [0, 0, 0, 0], "step": [0, 1, 2, 3], "q_mvar": [0., -1., -2.2, -3.5],
                                                      "p_mw": [0., .01, .03, .06]})
    for step in (0, 2):
        n = copy.deepcopy(net)
        pp.create_shunt(n, b[1], q_mvar=-1., p_mw=0.01, step=step, max_step=3, step_dependency_table=True, id_characteristic_table=0)
        pp.create_shunt(n, b[2], q_mvar=0.7, p_mw=0.02, step=1, max_step=3)
        pp.runpp(n)
        for bus in n.bus.index:
            flow = n.res_line.p_from_mw[n.line.from_bus == bus].sum() + n.res_line.p_to_mw[n.line.to_bus == bus].sum()
            cons = n.res_load.p_mw[n.load.bus == bus].sum() + n.res_shunt.p_mw[n.shunt.bus == bus].sum(skipna=False) - \
                n.res_ext_grid.p_mw[n.ext_grid.bus == bus].sum()
            if not abs(cons + flow) < 1e-6 or not abs(n.res_bus.p_mw.at[bus] + flow) < 1e-6:
                fails.append(f"shunt with step_dependency_table at step {step}: bus {bus}: elements take {cons} MW, res_bus.p_mw = "
                             f"{n.res_bus.p_mw.at[bus]}, the lines deliver {-flow:.6f} MW")
                break
    # DC power flow with an SSC: either refused or a finite, balanced result
    n = pp.create_empty_network()
    b = pp.create_buses(n, 3, 110.)
    pp.create_ext_grid(n, b[0])
    pp.create_line_from_parameters(n, b[0], b[1], 30., 0.06, 0.3, 10., 0.6); pp.create_line_from_parameters(n, b[1], b[2], 30., 0.06, 0.3, 10., 0.6)
    pp.create_load(n, b[2], 20., 5.)
    pp.create_ssc(n, b[1], r_ohm=0., x_ohm=5., set_vm_pu=1.0)
    try:
        pp.rundcpp(n)
        if n.converged and (n.res_bus.va_degree.isna().any() or np.isnan(n.res_ext_grid.p_mw.sum())):
            fails.append(f"rundcpp on a net with an SSC: converged = True, res_ext_grid.p_mw = {n.res_ext_grid.p_mw.values.tolist()}, "
                         f"res_bus.va_degree = {n.res_bus.va_degree.values.tolist()}")
    except NotImplementedError:
        pass
    for f in fails:
        print("REPRODUCED:", f)
    if not fails:
        print("not reproduced: balance holds with a table shunt at step 0; the DC power flow does not report convergence with NaN results")
    sys.exit(1 if fails else 0)
