"""Native replay for C12: values logged by run_timeseries equal fresh power flows of every step.  exit 1 = reproduced."""
import sys
import copy
import numpy as np
import pandas as pd
import pandapower as pp
import pandapower.control as ct
from pandapower.timeseries import DFData, OutputWriter, run_timeseries


def _net(with_trafo2w):
    net = pp.create_empty_network()
    hv = pp.create_bus(net, 110.); mv = pp.create_bus(net, 20.); lv = pp.create_bus(net, 10.); b3 = pp.create_bus(net, 20.); b4 = pp.create_bus(net, 0.4)
    pp.create_ext_grid(net, hv, vm_pu=1.01)
    pp.create_transformer3w_from_parameters(net, hv, mv, lv, vn_hv_kv=110., vn_mv_kv=20., vn_lv_kv=10., sn_hv_mva=60., sn_mv_mva=40., sn_lv_mva=25.,
                                            vk_hv_percent=10., vk_mv_percent=11., vk_lv_percent=12., vkr_hv_percent=0.3, vkr_mv_percent=0.31,
                                            vkr_lv_percent=0.32, pfe_kw=30., i0_percent=0.1, tap_side="hv", tap_pos=0, tap_neutral=0, tap_min=-8,
                                            tap_max=8, tap_step_percent=1.5, tap_changer_type="Ratio")
    pp.create_line_from_parameters(net, mv, b3, 4., 0.12, 0.11, 250., 0.6)
    pp.create_load(net, b3, 8., 2.); pp.create_load(net, lv, 5., 1.)
    if with_trafo2w:
        pp.create_transformer_from_parameters(net, b3, b4, sn_mva=0.63, vn_hv_kv=20., vn_lv_kv=0.4, vkr_percent=1.1, vk_percent=6., pfe_kw=1.,
                                              i0_percent=0.2, tap_side="hv", tap_neutral=0, tap_min=-2, tap_max=2, tap_step_percent=2.5, tap_pos=0,
                                              tap_changer_type="Ratio")
        pp.create_load(net, b4, 0.3, 0.1)
    pp.create_gen(net, mv, 3., vm_pu=1.0)
    return net


CASES = [("trafo3w", "tap_pos", [0, 3, -2]), ("line", "length_km", [4., 9., 15.]), ("load", "p_mw", [8., 12., 3.]), ("gen", "vm_pu", [1.0, 1.02, 0.99]),
         ("trafo", "tap_pos", [0, 2, -1])]


def main():
    fails = []
    for with_t2 in (False, True):
        for element, variable, values in CASES:
            if element == "trafo" and not with_t2:
                continue
            net = _net(with_t2)
            ds = DFData(pd.DataFrame({"v": values}))
            ct.ConstControl(net, element, variable, element_index=[0], profile_name=["v"], data_source=ds)
            logs = [("res_bus", "vm_pu"), ("res_line", "p_from_mw"), ("res_trafo3w", "p_hv_mw")]
            ow = OutputWriter(net, output_path=None, log_variables=logs)
            tag = f"ConstControl({element}.{variable}), {'with' if with_t2 else 'without'} 2W transformer"
            try:
                run_timeseries(net, time_steps=range(len(values)), verbose=False)
            except Exception as e:
                fails.append(f"{tag}: run_timeseries raised {type(e).__name__}: {str(e)[:100]}")
                continue
            for tab, col in logs:
                key = f"{tab}.{col}"
                if key not in ow.output:
                    fails.append(f"{tag}: requested variable {key} was not recorded")
                    continue
                got = ow.output[key].values.astype(float)
                for k, v in enumerate(values):
                    n = copy.deepcopy(net)
                    n.controller = n.controller.iloc[0:0]
                    n[element].at[0, variable] = v
                    pp.runpp(n)
                    ref = n[tab][col].values.astype(float)
                    if not np.allclose(got[k], ref, rtol=1e-7, atol=1e-8, equal_nan=True):
                        fails.append(f"{tag}: {key} at time step {k} differs from a fresh power flow (max abs diff {np.nanmax(np.abs(got[k] - ref)):.3e})")
                        break
    for f in fails:
        print("REPRODUCED:", f)
    if not fails:
        print("not reproduced: run_timeseries equals fresh power flows on all replay cases")
    sys.exit(1 if fails else 0)


def main_divergence():
    """one time step has no power flow solution; continue_on_divergence=True: that step is reported as failed and every later step equals a
    fresh power flow"""
    import copy
    import logging
    import pandas as pd
    import pandapower.networks as pn
    from pandapower.control import ConstControl
    from pandapower.timeseries import OutputWriter, DFData, run_timeseries
    logging.disable(logging.CRITICAL)
    fails = []
    net = pn.simple_four_bus_system()
    base = copy.deepcopy(net)
    prof = pd.DataFrame({"a": [0.03, 0.04, 800., 0.035, 0.02], "b": [0.03, 0.02, 0.03, 0.045, 0.03]})
    ConstControl(net, "load", "p_mw", element_index=[0, 1], profile_name=["a", "b"], data_source=DFData(prof))
    ow = OutputWriter(net, output_path=None, log_variables=[("res_bus", "vm_pu"), ("res_load", "p_mw")])
    run_timeseries(net, time_steps=list(prof.index), continue_on_divergence=True, verbose=False)
    failed = ow.output["Parameters"]["powerflow_failed"]
    for t in prof.index:
        ref = copy.deepcopy(base)
        ref.load.loc[[0, 1], "p_mw"] = prof.loc[t].values
        try:
            pp.runpp(ref)
        except pp.LoadflowNotConverged:
            if not failed.loc[t]:
                fails.append(f"time step {t} has no power flow solution but is not reported as failed")
            continue
        if failed.loc[t]:
            fails.append(f"time step {t} (after the diverged step 2) is reported as failed, a fresh power flow converges")
            continue
        rec = ow.output["res_bus.vm_pu"].loc[t].values.astype(float)
        if not np.allclose(rec, ref.res_bus.vm_pu.values, atol=1e-6, equal_nan=True):
            fails.append(f"time step {t}: recorded res_bus.vm_pu {np.round(rec, 5)} != fresh power flow {np.round(ref.res_bus.vm_pu.values, 5)}")
    for f in fails:
        print("REPRODUCED:", f)
    if not fails:
        print("not reproduced: the steps after a diverged step equal fresh power flows")
    sys.exit(1 if fails else 0)


if __name__ == "__main__":
    main()


def _compare(tag, build, prepare, element, variable, index, values, logs, fails, **kwargs):
    """run_timeseries with a ConstControl profile on net[element].loc[index, variable] vs. fresh power flows of every step"""
    import contextlib
    import io
    import logging
    logging.disable(logging.CRITICAL)
    net = build()
    prepare(net)
    ct.ConstControl(net, element, variable, element_index=[index], profile_name=["v"], data_source=DFData(pd.DataFrame({"v": values})))
    ow = OutputWriter(net, output_path=None, log_variables=list(logs))
    try:
        with contextlib.redirect_stderr(io.StringIO()), contextlib.redirect_stdout(io.StringIO()):
            run_timeseries(net, time_steps=range(len(values)), verbose=False, **kwargs)
    except Exception as e:
        fails.append(f"{tag}: run_timeseries raised {type(e).__name__}: {str(e)[:100]} (every fresh power flow converges)")
        return
    ref = build()
    prepare(ref)
    ref.controller = ref.controller.iloc[0:0]
    for k, v in enumerate(values):
        ref[element].at[index, variable] = v
        pp.runpp(ref, **kwargs)
        for tab, col in logs:
            key = f"{tab}.{col}"
            if key not in ow.output:
                fails.append(f"{tag}: requested variable {key} was not recorded")
                return
            got = ow.output[key].loc[k].values.astype(float)
            want = ref[tab][col].values.astype(float)
            if got.shape != want.shape or not np.allclose(got, want, rtol=1e-7, atol=1e-7, equal_nan=True):
                fails.append(f"{tag}: {key} at time step {k}: recorded {np.round(got, 5).tolist()}, fresh power flow {np.round(want, 5).tolist()}")
                return


def main_more():
    """several logged variables of one result table (batch reading), open branch switches together with branch parameter profiles, a net
    that carries the ppc of an earlier power flow with another topology"""
    import pandapower.networks as pn
    fails = []
    nothing = lambda net: None
    for logs in ([("res_bus", "vm_pu"), ("res_bus", "va_degree")], [("res_line", "i_ka"), ("res_line", "loading_percent")],
                 [("res_trafo", "i_hv_ka"), ("res_trafo", "loading_percent")], [("res_bus", "vm_pu"), ("res_line", "loading_percent"), ("res_line", "i_ka")]):
        _compare(f"load profile on simple_four_bus_system, logging {logs}", pn.simple_four_bus_system, nothing, "load", "p_mw", 0,
                 [0.01, 0.02, 0.04], logs, fails)

    def standby():
        net = pp.create_empty_network()
        b0 = pp.create_bus(net, 110.); b1 = pp.create_bus(net, 20.); b2 = pp.create_bus(net, 20.)
        pp.create_ext_grid(net, b0)
        pp.create_transformer(net, b0, b1, "25 MVA 110/20 kV"); pp.create_transformer(net, b0, b1, "25 MVA 110/20 kV")
        pp.create_switch(net, b1, 1, et="t", closed=False)        # stand-by transformer, open at the lv side
        pp.create_line(net, b1, b2, 5., "NA2XS2Y 1x240 RM/25 12/20 kV")
        pp.create_line(net, b1, b2, 5., "NA2XS2Y 1x240 RM/25 12/20 kV")
        pp.create_switch(net, b2, 1, et="l", closed=False)        # second line open at its far end
        pp.create_load(net, b2, 8., 2.)
        return net
    logs = [("res_bus", "vm_pu"), ("res_trafo", "loading_percent"), ("res_line", "loading_percent")]
    for kw in ({}, {"neglect_open_switch_branches": True}):
        _compare(f"tap_pos profile with an open transformer / line switch in the net, {kw}", standby, nothing, "trafo", "tap_pos", 0,
                 [0., 2., -3., 5.], logs, fails, **kw)
        _compare(f"line length profile with an open transformer / line switch in the net, {kw}", standby, nothing, "line", "length_km", 0,
                 [5., 8., 2.], logs, fails, **kw)

    def ring():
        net = pp.create_empty_network()
        b = [pp.create_bus(net, 20.) for _ in range(4)]
        pp.create_ext_grid(net, b[0])
        for i in range(4):
            pp.create_line(net, b[i], b[(i + 1) % 4], 2., "NA2XS2Y 1x240 RM/25 12/20 kV")
        pp.create_switch(net, b[2], 2, et="l", closed=True)
        pp.create_load(net, b[2], 1., 0.3)
        return net

    def earlier_pf_then_open(net):
        pp.runpp(net)
        net.switch.at[0, "closed"] = False
    _compare("runpp, then a line switch is opened, then run_timeseries", ring, earlier_pf_then_open, "load", "p_mw", 0, [1., 2., 3.],
             [("res_bus", "vm_pu"), ("res_line", "loading_percent")], fails)
    # a second time series on the same net and output writer records the requested variables again
    import contextlib
    import io
    net = pn.simple_four_bus_system()
    values = [0.01, 0.02, 0.04]
    ct.ConstControl(net, "load", "p_mw", element_index=[0], profile_name=["v"], data_source=DFData(pd.DataFrame({"v": values})))
    logs = [("res_bus", "vm_pu"), ("res_line", "loading_percent")]
    ow = OutputWriter(net, output_path=None, log_variables=list(logs))
    for run in (1, 2):
        try:
            with contextlib.redirect_stderr(io.StringIO()), contextlib.redirect_stdout(io.StringIO()):
                run_timeseries(net, time_steps=range(3), verbose=False)
        except Exception as e:
            fails.append(f"time series run {run} on the same net raised {type(e).__name__}: {str(e)[:100]}")
            break
        ref = pn.simple_four_bus_system()
        for k, v in enumerate(values):
            ref.load.at[0, "p_mw"] = v
            pp.runpp(ref)
            for tab, col in logs:
                key = f"{tab}.{col}"
                if key not in ow.output:
                    fails.append(f"time series run {run} on the same net and output writer: requested variable {key} was not recorded")
                elif not np.allclose(ow.output[key].loc[k].values.astype(float), ref[tab][col].values, rtol=1e-7, atol=1e-7):
                    fails.append(f"time series run {run} on the same net: {key} at step {k} differs from a fresh power flow")
        if fails:
            break
    for f in fails:
        print("REPRODUCED:", f)
    if not fails:
        print("not reproduced: run_timeseries equals fresh power flows on all further replay cases")
    sys.exit(1 if fails else 0)
