"""Native replays for C30."""
import sys
import copy
import numpy as np
import pandas as pd
import pandapower as pp
import pandapower.networks as nw
from pandapower.diagnostic import Diagnostic
from pandapower.diagnostic import diagnostic_functions as df


def main_state():
    fails = []
    net = nw.example_simple()
    defaults_before = dict(df.default_argument_values)
    n_default = len(df.default_diagnostic_functions)
    d1 = Diagnostic()
    d1.diagnose_network(net, report_style=None, overload_scaling_factor=0.5, zz_other=1)
    d2 = Diagnostic()
    if d2.kwargs.get("overload_scaling_factor") != defaults_before["overload_scaling_factor"] or "zz_other" in d2.kwargs:
        fails.append(f"option passed to one instance is seen by a new instance: {d2.kwargs}")
    if dict(df.default_argument_values) != defaults_before:
        fails.append("module-level default_argument_values changed by a diagnose_network call")
    seen = {}

    class Probe(df.NoExtGrid):
        def diagnostic(self, net, **kwargs):
            seen.update(kwargs=dict(kwargs))
            return None
    d1.register_function(Probe(), None, "probe")
    if len(df.default_diagnostic_functions) != n_default:
        fails.append("register_function changed the module-level default function list")
    d3 = Diagnostic()
    if any(n == "probe" for n, *_ in d3._functions):
        fails.append("function registered on one instance shows up in a later instance")
    d1.diagnose_network(net, report_style=None)
    if "zz_other" in seen.get("kwargs", {}) or seen.get("kwargs", {}).get("overload_scaling_factor") != defaults_before["overload_scaling_factor"]:
        fails.append(f"options of an earlier diagnose_network call leak into a later call: {seen.get('kwargs')}")
    if fails:
        print("VIOLATION REPRODUCED:", fails[0])
        sys.exit(1)
    print("not reproduced")
    sys.exit(0)


def _nets():
    n = nw.example_multivoltage()
    yield "multivoltage", n
    n2 = nw.example_multivoltage()
    n2.xward.loc[n2.xward.index[0], "x_ohm"] = 0.
    n2.load.scaling = 50.
    yield "multivoltage, implausible xward, overload (does not converge)", n2
    n3 = nw.example_multivoltage()
    n3.line.loc[n3.line.index[0], "length_km"] = 1e-6
    n3.load.scaling = 50.
    yield "multivoltage, implausible line, overload", n3
    n4 = nw.example_simple()
    n4.load.scaling = 1000.
    yield "simple, overload", n4
    n5 = nw.example_simple()
    n5.switch.closed = False
    yield "simple, all switches open", n5


def _equal(a, b):
    keys = [k for k in a.keys() if isinstance(a[k], pd.DataFrame) and not k.startswith("res_") and not k.startswith("_")]
    for k in keys:
        if k not in b or not isinstance(b[k], pd.DataFrame):
            return f"table {k} missing"
        if list(a[k].index) != list(b[k].index):
            return f"table {k}: rows {list(a[k].index)[:8]} -> {list(b[k].index)[:8]}"
        for c in a[k].columns:
            if c not in b[k].columns:
                return f"table {k}: column {c} removed"
            x, y = a[k][c], b[k][c]
            if not (x.equals(y) or all((p == q) or (p != p and q != q) for p, q in zip(x.values, y.values))):
                return f"table {k}.{c} changed"
    return None


def main_frame(function=None):
    fails = []
    for name, net in _nets():
        before = copy.deepcopy(net)
        try:
            Diagnostic().diagnose_network(net, report_style=None)
        except Exception as e:
            print("diagnose_network raised", type(e).__name__, e)
        diff = _equal(before, net)
        if diff:
            fails.append(f"{name}: diagnose_network modified the net: {diff}")
            break
    if fails:
        print("VIOLATION REPRODUCED:", fails[0])
        sys.exit(1)
    print("not reproduced")
    sys.exit(0)


def main_frame_errors(function=None, ks=range(1, 25)):
    """the power flow handed to the diagnostic (public `run=` argument) fails with an error that is not a convergence error at its k-th call;
    diagnose_network swallows such errors (diag_errors) and returns normally -- the net must be what it was"""
    import logging
    logging.disable(logging.CRITICAL)
    fails = []

    def flaky(k):
        state = {"n": 0}

        def run(net, **kw):
            state["n"] += 1
            if state["n"] == k:
                raise UserWarning("no reference bus: the power flow cannot be started")
            return pp.runpp(net, **kw)
        return run

    def more_nets():
        n = nw.example_simple()
        n.load.scaling = 1000.
        yield "simple, overload", n
        n = nw.example_simple()
        n.switch.closed = False
        yield "simple, all switches open", n
        n = nw.example_simple()
        n.load.scaling = 1000.
        n.gen["slack"] = True
        pp.create_gen(n, 3, p_mw=1., vm_pu=1.0, in_service=False)
        yield "simple, overload, a slack gen and an out-of-service gen", n
    for name, net in more_nets():
        for k in ks:
            before = copy.deepcopy(net)
            try:
                Diagnostic().diagnose_network(net, report_style=None, run=flaky(k))
            except Exception as e:
                print("diagnose_network raised", type(e).__name__, e)
            diff = _equal(before, net)
            if diff:
                fails.append(f"{name}: the power flow call number {k} of the diagnostic run fails with a UserWarning (swallowed by diagnose_network): "
                             f"the net is modified afterwards: {diff}")
                net = before
                break
    # networks in which a check's own modified power flow fails with another error than a convergence error
    n = pp.create_empty_network()
    b = [pp.create_bus(n, 20.) for _ in range(5)]
    pp.create_ext_grid(n, b[0], vm_pu=1.0); pp.create_gen(n, b[1], p_mw=1., vm_pu=1.05)
    for f, t in ((0, 2), (1, 2), (2, 3)):
        pp.create_line(n, b[f], b[t], 5., "NA2XS2Y 1x95 RM/25 12/20 kV")
    pp.create_load(n, b[3], p_mw=5000., q_mvar=1000.)           # no power flow solution
    pp.create_switch(n, b[0], b[1], et="b", closed=False)       # open coupler between the ext_grid bus (1.0) and the gen bus (1.05)
    pp.create_switch(n, b[3], b[4], et="b", closed=False)
    n2 = pp.create_empty_network()
    b = [pp.create_bus(n2, 20.) for _ in range(3)]
    pp.create_gen(n2, b[0], p_mw=1., vm_pu=1.0, slack=True); pp.create_gen(n2, b[2], p_mw=1., vm_pu=1.0, in_service=False)
    pp.create_line(n2, b[0], b[1], 5., "NA2XS2Y 1x95 RM/25 12/20 kV"); pp.create_line(n2, b[1], b[2], 5., "NA2XS2Y 1x95 RM/25 12/20 kV")
    pp.create_load(n2, b[2], p_mw=1.)
    for name, net in (("no solution, open coupler between an ext_grid bus (1.0 p.u.) and a gen bus (1.05 p.u.)", n),
                      ("slack gen and an out-of-service gen", n2)):
        before = copy.deepcopy(net)
        try:
            Diagnostic().diagnose_network(net, report_style=None)
        except Exception as e:
            print("diagnose_network raised", type(e).__name__, e)
        diff = _equal(before, net)
        if diff:
            fails.append(f"{name}: diagnose_network modified the net: {diff}")
    # an element that is replaced by the implausible-impedance check is a group member
    n = nw.example_multivoltage()
    n.xward.loc[n.xward.index[0], ["r_ohm", "x_ohm"]] = 1e-4
    n.load.scaling = 50.
    pp.create_group(n, ["xward", "line"], [[n.xward.index[0]], [n.line.index[0]]], name="g")
    before = copy.deepcopy(n)
    Diagnostic().diagnose_network(n, report_style=None)
    if not before.group.reset_index().equals(n.group.reset_index()):
        fails.append(f"implausible xward that is a group member, network does not converge: net.group changed from "
                     f"{before.group[['element_type', 'element_index']].values.tolist()} to {n.group[['element_type', 'element_index']].values.tolist()}")
    for f in fails:
        print("REPRODUCED:", f)
    if not fails:
        print("not reproduced: the net is unchanged after diagnostic runs with failing power flows")
    sys.exit(1 if fails else 0)
