"""Native replays for C30."""
import sys
import copy
import numpy as np
import pandas as pd
import pandapower as pp
import pandapower.networks as nw
from pandapower.diagnostic import Diagnostic
from pandapower.diagnostic import diagnostic_functions as df


def main_state():
    fails = []
    net = nw.example_simple()
    defaults_before = dict(df.default_argument_values)
    n_default = len(df.default_diagnostic_functions)
    d1 = Diagnostic()
    d1.diagnose_network(net, report_style=None, overload_scaling_factor=0.5, zz_other=1)
    d2 = Diagnostic()
    if d2.kwargs.get("overload_scaling_factor") != defaults_before["overload_scaling_factor"] or "zz_other" in d2.kwargs:
        fails.append(f"option passed to one instance is seen by a new instance: {d2.kwargs}")
    if dict(df.default_argument_values) != defaults_before:
        fails.append("module-level default_argument_values changed by a diagnose_network call")
    seen = {}

    class Probe(df.NoExtGrid):
        def diagnostic(self, net, **kwargs):
            seen.update(kwargs=dict(kwargs))
            return None
    d1.register_function(Probe(), None, "probe")
    if len(df.default_diagnostic_functions) != n_default:
        fails.append("register_function changed the module-level default function list")
    d3 = Diagnostic()
    if any(n == "probe" for n, *_ in d3._functions):
        fails.append("function registered on one instance shows up in a later instance")
    d1.diagnose_network(net, report_style=None)
    if "zz_other" in seen.get("kwargs", {}) or seen.get("kwargs", {}).get("overload_scaling_factor") != defaults_before["overload_scaling_factor"]:
        fails.append(f"options of an earlier diagnose_network call leak into a later call: {seen.get('kwargs')}")
    if fails:
        print("VIOLATION REPRODUCED:", fails[0])
        sys.exit(1)
    print("not reproduced")
    sys.exit(0)


def _nets():
    n = nw.example_multivoltage()
    yield "multivoltage", n
    n2 = nw.example_multivoltage()
    n2.xward.loc[n2.xward.index[0], "x_ohm"] = 0.
    n2.load.scaling = 50.
    yield "multivoltage, implausible xward, overload (does not converge)", n2
    n3 = nw.example_multivoltage()
    n3.line.loc[n3.line.index[0], "length_km"] = 1e-6
    n3.load.scaling = 50.
    yield "multivoltage, implausible line, overload", n3
    n4 = nw.example_simple()
    n4.load.scaling = 1000.
    yield "simple, overload", n4
    n5 = nw.example_simple()
    n5.switch.closed = False
    yield "simple, all switches open", n5


def _equal(a, b):
    keys = [k for k in a.keys() if isinstance(a[k], pd.DataFrame) and not k.startswith("res_") and not k.startswith("_")]
    for k in keys:
        if k not in b or not isinstance(b[k], pd.DataFrame):
            return f"table {k} missing"
        if list(a[k].index) != list(b[k].index):
            return f"table {k}: rows {list(a[k].index)[:8]} -> {list(b[k].index)[:8]}"
        for c in a[k].columns:
            if c not in b[k].columns:
                return f"table {k}: column {c} removed"
            x, y = a[k][c], b[k][c]
            if not (x.equals(y) or all((p == q) or (p != p and q != q) for p, q in zip(x.values, y.values))):
                return f"table {k}.{c} changed"
    return None


def main_frame(function=None):
    fails = []
    for name, net in _nets():
        before = copy.deepcopy(net)
        try:
            Diagnostic().diagnose_network(net, report_style=None)
        except Exception as e:
            print("diagnose_network raised", type(e).__name__, e)
        diff = _equal(before, net)
        if diff:
            fails.append(f"{name}: diagnose_network modified the net: {diff}")
            break
    if fails:
        print("VIOLATION REPRODUCED:", fails[0])
        sys.exit(1)
    print("not reproduced")
    sys.exit(0)
