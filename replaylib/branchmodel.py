"""Native replay for C02/C03: power flows vs an independent implementation of the documented element models."""
import sys
import copy
import numpy as np
import pandapower as pp
import pandapower.networks as nw

SQ3 = np.sqrt(3.)


def nets():
    n = nw.example_multivoltage()
    yield "example_multivoltage", n
    n2 = pp.create_empty_network()
    b1 = pp.create_bus(n2, 110.); b2 = pp.create_bus(n2, 20.); b3 = pp.create_bus(n2, 10.); b4 = pp.create_bus(n2, 20.); b5 = pp.create_bus(n2, 10.)
    pp.create_ext_grid(n2, b1, vm_pu=1.02)
    pp.create_transformer3w(n2, b1, b2, b3, "63/25/38 MVA 110/20/10 kV")
    pp.create_line(n2, b2, b4, 3., "NA2XS2Y 1x240 RM/25 12/20 kV", parallel=2)
    pp.create_line(n2, b3, b5, 1.5, "NA2XS2Y 1x240 RM/25 6/10 kV")
    pp.create_load(n2, b4, 22., 6.); pp.create_load(n2, b5, 3., 1.); pp.create_load(n2, b2, 1., 0.2)
    pp.create_impedance(n2, b4, b2, rft_pu=0.02, xft_pu=0.05, sn_mva=10.)
    yield "3w-heavy-mv", n2


def s_abs(p, q):
    return np.sqrt(p ** 2 + q ** 2)


def check_results(name, net, opts, fails):
    vm = net.res_bus.vm_pu; vn = net.bus.vn_kv
    tol = dict(rtol=1e-6, atol=1e-8)
    # lines
    rl = net.res_line
    for side, bcol in (("from", "from_bus"), ("to", "to_bus")):
        b = net.line[bcol].values
        i = s_abs(rl[f"p_{side}_mw"].values, rl[f"q_{side}_mvar"].values) / (SQ3 * vm.loc[b].values * vn.loc[b].values)
        if not np.allclose(np.nan_to_num(rl[f"i_{side}_ka"].values), np.nan_to_num(i), **tol):
            fails.append(f"{name} {opts}: res_line.i_{side}_ka differs from |S|/(sqrt3 v)")
    ika = np.maximum(rl.i_from_ka.values, rl.i_to_ka.values)
    if not np.allclose(np.nan_to_num(rl.i_ka.values), np.nan_to_num(ika), **tol):
        fails.append(f"{name} {opts}: res_line.i_ka is not max(i_from, i_to)")
    ld = ika / (net.line.max_i_ka.values * net.line.df.values * net.line.parallel.values) * 100
    if not np.allclose(np.nan_to_num(rl.loading_percent.values), np.nan_to_num(ld), **tol):
        fails.append(f"{name} {opts}: res_line.loading_percent differs from i_ka/(max_i_ka df parallel)")
    if opts.get("ac", True) and not np.allclose(np.nan_to_num(rl.pl_mw.values), np.nan_to_num(rl.p_from_mw.values + rl.p_to_mw.values), **tol):
        fails.append(f"{name} {opts}: res_line.pl_mw != p_from + p_to")
    # 2W trafos
    if len(net.trafo):
        rt, t = net.res_trafo, net.trafo
        s_hv, s_lv = s_abs(rt.p_hv_mw.values, rt.q_hv_mvar.values), s_abs(rt.p_lv_mw.values, rt.q_lv_mvar.values)
        i_hv = s_hv / (SQ3 * vm.loc[t.hv_bus.values].values * vn.loc[t.hv_bus.values].values)
        i_lv = s_lv / (SQ3 * vm.loc[t.lv_bus.values].values * vn.loc[t.lv_bus.values].values)
        if not (np.allclose(np.nan_to_num(rt.i_hv_ka.values), np.nan_to_num(i_hv), **tol) and np.allclose(np.nan_to_num(rt.i_lv_ka.values), np.nan_to_num(i_lv), **tol)):
            fails.append(f"{name} {opts}: res_trafo currents differ from |S|/(sqrt3 v)")
        if opts.get("trafo_loading", "current") == "current":
            ld = np.maximum(i_hv * t.vn_hv_kv.values, i_lv * t.vn_lv_kv.values) * SQ3 / t.sn_mva.values * 100
        else:
            ld = np.maximum(s_hv, s_lv) / t.sn_mva.values * 100
        ld = ld / t.parallel.values / t.df.values
        if not np.allclose(np.nan_to_num(rt.loading_percent.values), np.nan_to_num(ld), rtol=1e-6, atol=1e-7):
            k = int(np.argmax(np.abs(np.nan_to_num(rt.loading_percent.values) - np.nan_to_num(ld))))
            fails.append(f"{name} {opts}: res_trafo.loading_percent[{t.index[k]}] = {rt.loading_percent.values[k]:.6f}, documented model gives {ld[k]:.6f}")
    # 3W trafos
    if len(net.trafo3w):
        r3, t3 = net.res_trafo3w, net.trafo3w
        lds = []
        for s in ("hv", "mv", "lv"):
            b = t3[f"{s}_bus"].values
            S = s_abs(r3[f"p_{s}_mw"].values, r3[f"q_{s}_mvar"].values)
            i = S / (SQ3 * vm.loc[b].values * vn.loc[b].values)
            if not np.allclose(np.nan_to_num(r3[f"i_{s}_ka"].values), np.nan_to_num(i), **tol):
                fails.append(f"{name} {opts}: res_trafo3w.i_{s}_ka differs from |S|/(sqrt3 v)")
            if opts.get("trafo_loading", "current") == "current":
                lds.append(i * t3[f"vn_{s}_kv"].values * SQ3 / t3[f"sn_{s}_mva"].values * 100)
            else:
                lds.append(S / t3[f"sn_{s}_mva"].values * 100)
        ld = np.max(np.vstack(lds), axis=0)
        if not np.allclose(np.nan_to_num(r3.loading_percent.values), np.nan_to_num(ld), rtol=1e-6, atol=1e-7):
            k = int(np.argmax(np.abs(np.nan_to_num(r3.loading_percent.values) - np.nan_to_num(ld))))
            fails.append(f"{name} {opts}: res_trafo3w.loading_percent[{t3.index[k]}] = {r3.loading_percent.values[k]:.6f}, documented model (max over the "
                         f"three terminals) gives {ld[k]:.6f}")


def line_pi_model(net):
    """independent pi-model of the lines on the solved voltages -> (p_from, q_from, p_to, q_to) in MW/Mvar"""
    V = net.res_bus.vm_pu.values * np.exp(1j * np.deg2rad(net.res_bus.va_degree.values)) * net.bus.vn_kv.values / SQ3  # phase voltages in kV
    pos = {b: k for k, b in enumerate(net.bus.index)}
    out = []
    for _, l in net.line.iterrows():
        z = (l.r_ohm_per_km + 1j * l.x_ohm_per_km) * l.length_km / l.parallel
        y = (l.get("g_us_per_km", 0.) * 1e-6 + 1j * 2 * np.pi * net.f_hz * l.c_nf_per_km * 1e-9) * l.length_km * l.parallel
        vf, vt = V[pos[l.from_bus]], V[pos[l.to_bus]]
        i_f = (vf - vt) / z + vf * y / 2
        i_t = (vt - vf) / z + vt * y / 2
        sf, st = 3 * vf * np.conj(i_f), 3 * vt * np.conj(i_t)
        out.append((sf.real, sf.imag, st.real, st.imag) if l.in_service else (0, 0, 0, 0))
    return np.array(out)


def main(part=None):
    fails = []
    for name, net in nets():
        for opts in (dict(), dict(trafo_loading="power"), dict(trafo_model="pi", trafo_loading="power"), dict(trafo_model="pi")):
            n = copy.deepcopy(net)
            try:
                pp.runpp(n, **opts)
            except Exception as e:
                print("skip", name, opts, type(e).__name__, e)
                continue
            check_results(name, n, opts, fails)
            m = line_pi_model(n)
            got = n.res_line[["p_from_mw", "q_from_mvar", "p_to_mw", "q_to_mvar"]].values
            ok = ~np.isnan(got).any(axis=1)
            # lines with an open line switch are connected through an auxiliary bus: not covered by this simple model
            open_sw = set(n.switch.element[(n.switch.et == "l") & (~n.switch.closed)].values)
            ok &= ~n.line.index.isin(open_sw)
            if not np.allclose(got[ok], m[ok], rtol=1e-5, atol=1e-6):
                k = int(np.argmax(np.abs(got[ok] - m[ok]).max(axis=1)))
                fails.append(f"{name} {opts}: line {n.line.index[ok][k]} flows {got[ok][k]} differ from the pi model on the solved voltages {m[ok][k]}")
            if fails:
                break
        if fails:
            break
    if fails:
        print("VIOLATION REPRODUCED:", fails[0])
        sys.exit(1)
    print("not reproduced")
    sys.exit(0)


def main_more():
    """a three-winding transformer with one winding at an out-of-service bus; DC power flow with voltage set points != 1"""
    fails = []
    # (a) trafo3w: the lv side is dead, hv -> mv carries the load
    for loading in ("current", "power"):
        n = [net for name, net in nets() if name == "3w-heavy-mv"][0]
        n.bus.loc[[2, 4], "in_service"] = False        # lv bus of the trafo3w and the bus behind it
        pp.runpp(n, trafo_loading=loading)
        r3, t3 = n.res_trafo3w, n.trafo3w
        lds = []
        for s in ("hv", "mv"):
            b = t3[f"{s}_bus"].values
            S = s_abs(r3[f"p_{s}_mw"].values, r3[f"q_{s}_mvar"].values)
            i = S / (SQ3 * n.res_bus.vm_pu.loc[b].values * n.bus.vn_kv.loc[b].values)
            lds.append(i * t3[f"vn_{s}_kv"].values * SQ3 / t3[f"sn_{s}_mva"].values * 100 if loading == "current" else S / t3[f"sn_{s}_mva"].values * 100)
        want = np.maximum(*lds)
        got = r3.loading_percent.values
        if not np.allclose(got, want, rtol=1e-6, atol=1e-7):
            fails.append(f"trafo3w with the lv bus out of service, trafo_loading={loading}: p_hv = {r3.p_hv_mw.values[0]:.3f} MW, loading_percent = "
                         f"{got[0]:.4f}, documented model (max over the windings in operation) gives {want[0]:.4f}")
    # (b) DC power flow: |V| = 1 p.u. everywhere, so a (lossless) branch carries |p| / (sqrt(3) vn) at both ends
    n = pp.create_empty_network()
    b = pp.create_buses(n, 4, 110.)
    pp.create_ext_grid(n, b[0], vm_pu=1.06)
    pp.create_gen(n, b[1], p_mw=10., vm_pu=1.05)
    for f, t in ((0, 1), (1, 2), (2, 3)):
        pp.create_line_from_parameters(n, b[f], b[t], 10., 0.06, 0.3, 10., 0.6)
    pp.create_transformer_from_parameters(n, b[3], pp.create_bus(n, 20.), 40., 110., 20., 0.4, 12., 20., 0.05)
    pp.create_load(n, b[2], 60., 10.); pp.create_load(n, b[3], 20., 5.); pp.create_load(n, 4, 10., 2.)
    pp.rundcpp(n)
    if not np.allclose(n.res_bus.vm_pu.values, 1.):
        fails.append(f"rundcpp with ext_grid vm_pu = 1.06, gen vm_pu = 1.05: res_bus.vm_pu = {n.res_bus.vm_pu.values.tolist()} (DC model: 1 p.u.)")
    want = np.abs(n.res_line.p_from_mw.values) / (SQ3 * 110.)
    for side in ("from", "to"):
        got = n.res_line[f"i_{side}_ka"].values
        if not np.allclose(got, want, rtol=1e-6, atol=1e-9):
            fails.append(f"rundcpp with ext_grid vm_pu = 1.06, gen vm_pu = 1.05: res_line.i_{side}_ka = {np.round(got, 5).tolist()}, the DC model "
                         f"(|V| = 1 p.u.) gives |p| / (sqrt(3) vn) = {np.round(want, 5).tolist()}")
    want = want / n.line.max_i_ka.values * 100
    if not np.allclose(n.res_line.loading_percent.values, want, rtol=1e-6, atol=1e-7):
        fails.append(f"rundcpp: res_line.loading_percent = {np.round(n.res_line.loading_percent.values, 3).tolist()}, DC model {np.round(want, 3).tolist()}")
    want = np.abs(n.res_trafo.p_hv_mw.values) / 40. * 100
    if not np.allclose(n.res_trafo.loading_percent.values, want, rtol=1e-6, atol=1e-7):
        fails.append(f"rundcpp: res_trafo.loading_percent = {n.res_trafo.loading_percent.values.tolist()}, DC model {want.tolist()}")
    for f in fails:
        print("REPRODUCED:", f)
    if not fails:
        print("not reproduced")
    sys.exit(1 if fails else 0)
