"""Native replay for C31: transformers with tap_dependency_table against (a) the same network in which every transformer
has a private characteristic id whose table holds exactly its own (id, tap_pos) row and (b), for 2W transformers, the
same transformer with ratio / angle / vk / vkr entered directly.  exit 1 = violation reproduced."""
import sys
import itertools
import numpy as np
import pandas as pd
import pandapower as pp

ROWS = {  # id -> step -> (ratio, angle, vk, vkr)
    0: {-1: (0.96, -2.0, 11.5, 0.45), 0: (1.0, 0.0, 12.0, 0.40), 1: (1.04, 2.5, 12.6, 0.38), 2: (1.07, 5.0, 13.1, 0.36)},
    1: {-1: (0.97, 1.0, 9.0, 0.50), 0: (1.0, 0.0, 9.5, 0.48), 1: (1.03, -1.5, 10.1, 0.47), 2: (1.05, -3.0, 10.8, 0.46)},
}


def _table(rows3w=False):
    recs = []
    for cid, steps in ROWS.items():
        for st, (ratio, ang, vk, vkr) in steps.items():
            r = {"id_characteristic": cid, "step": st, "voltage_ratio": ratio, "angle_deg": ang, "vk_percent": vk, "vkr_percent": vkr,
                 "vk_hv_percent": vk, "vkr_hv_percent": vkr, "vk_mv_percent": vk * 0.9, "vkr_mv_percent": vkr * 0.9,
                 "vk_lv_percent": vk * 0.8, "vkr_lv_percent": vkr * 0.8}
            recs.append(r)
    return pd.DataFrame(recs)


def net_2w(positions, ids, sides):
    net = pp.create_empty_network()
    hv = pp.create_bus(net, 110.)
    pp.create_ext_grid(net, hv, vm_pu=1.01)
    for k, (pos, cid, side) in enumerate(zip(positions, ids, sides)):
        lv = pp.create_bus(net, 20.)
        pp.create_transformer_from_parameters(net, hv, lv, sn_mva=40., vn_hv_kv=110., vn_lv_kv=20., vkr_percent=0.4, vk_percent=12.,
                                              pfe_kw=20., i0_percent=0.05, shift_degree=0., tap_side=side, tap_neutral=0, tap_min=-1,
                                              tap_max=2, tap_step_percent=1.5, tap_step_degree=0., tap_pos=pos, tap_changer_type="Ratio",
                                              tap_dependency_table=True, id_characteristic_table=cid)
        pp.create_load(net, lv, 8. + 3 * k, 2. + k)
    net["trafo_characteristic_table"] = _table()
    return net


def private_rows(net, table):
    """every transformer gets a private id; the table holds exactly its own row"""
    n2 = pp.pandapowerNet(net) if hasattr(pp, "pandapowerNet") else None
    import copy
    n2 = copy.deepcopy(net)
    t = n2["trafo_characteristic_table"]
    recs = []
    for idx in n2[table].index:
        if not bool(n2[table].at[idx, "tap_dependency_table"]):
            continue
        cid, pos = n2[table].at[idx, "id_characteristic_table"], n2[table].at[idx, "tap_pos"]
        row = t[(t.id_characteristic == cid) & (t.step == pos)].iloc[0].to_dict()
        row["id_characteristic"] = 1000 + int(idx)
        recs.append(row)
        n2[table].at[idx, "id_characteristic_table"] = 1000 + int(idx)
    n2["trafo_characteristic_table"] = pd.DataFrame(recs)
    return n2


def direct_2w(net):
    import copy
    n2 = copy.deepcopy(net)
    t = net["trafo_characteristic_table"]
    for idx in n2.trafo.index:
        cid, pos = n2.trafo.at[idx, "id_characteristic_table"], n2.trafo.at[idx, "tap_pos"]
        row = t[(t.id_characteristic == cid) & (t.step == pos)].iloc[0]
        side = n2.trafo.at[idx, "tap_side"]
        n2.trafo.at[idx, "tap_dependency_table"] = False
        n2.trafo.at[idx, "id_characteristic_table"] = np.nan
        n2.trafo.at[idx, "tap_pos"] = 0
        n2.trafo.at[idx, "vk_percent"] = row.vk_percent
        n2.trafo.at[idx, "vkr_percent"] = row.vkr_percent
        if side == "hv":
            n2.trafo.at[idx, "vn_hv_kv"] *= row.voltage_ratio
            n2.trafo.at[idx, "shift_degree"] += row.angle_deg
        else:
            n2.trafo.at[idx, "vn_lv_kv"] *= row.voltage_ratio
            n2.trafo.at[idx, "shift_degree"] -= row.angle_deg
    return n2


def net_3w(positions, ids, sides, stars):
    net = pp.create_empty_network()
    hv = pp.create_bus(net, 110.)
    pp.create_ext_grid(net, hv, vm_pu=1.0)
    for k, (pos, cid, side, star) in enumerate(zip(positions, ids, sides, stars)):
        mv = pp.create_bus(net, 20.); lv = pp.create_bus(net, 10.)
        pp.create_transformer3w_from_parameters(net, hv, mv, lv, vn_hv_kv=110., vn_mv_kv=20., vn_lv_kv=10., sn_hv_mva=60., sn_mv_mva=40.,
                                                sn_lv_mva=25., vk_hv_percent=10., vk_mv_percent=11., vk_lv_percent=12., vkr_hv_percent=0.3,
                                                vkr_mv_percent=0.31, vkr_lv_percent=0.32, pfe_kw=30., i0_percent=0.1, shift_mv_degree=0.,
                                                shift_lv_degree=0., tap_side=side, tap_pos=pos, tap_neutral=0, tap_min=-1, tap_max=2,
                                                tap_step_percent=1.2, tap_at_star_point=star, tap_changer_type="Ratio",
                                                tap_dependency_table=True, id_characteristic_table=cid)
        pp.create_load(net, mv, 10. + 2 * k, 3.); pp.create_load(net, lv, 4. + k, 1.)
    net["trafo_characteristic_table"] = _table()
    return net


def _cmp(a, b, what, fails, name):
    for tab in ("res_bus", what) if what else ("res_bus",):
        for col in a[tab].columns:
            x, y = a[tab][col].values.astype(float), b[tab][col].values.astype(float)
            if not np.allclose(x, y, rtol=1e-7, atol=1e-9, equal_nan=True):
                k = int(np.nanargmax(np.abs(x - y)))
                fails.append(f"{name}: {tab}.{col} differs (row {k}: {x[k]:.6f} vs {y[k]:.6f})")
                return


def main(kind="2W"):
    fails = []
    if kind == "2W":
        cases = [((1, 2, -1), (0, 0, 1), ("hv", "hv", "hv")), ((2, 1, 1), (0, 0, 0), ("hv", "lv", "hv")), ((1, 1, 2), (0, 1, 1), ("lv", "hv", "lv")),
                 ((-1, 2, 0), (1, 1, 0), ("hv", "hv", "lv")), ((2,), (0,), ("hv",)), ((1, -1), (1, 1), ("lv", "lv"))]
        for pos, ids, sides in cases:
            net = net_2w(pos, ids, sides)
            name = f"2W pos={pos} ids={ids} sides={sides}"
            pp.runpp(net, calculate_voltage_angles=True)
            # the directly entered variant changes the rated voltage (base of loading_percent): bus results are compared
            for other, label, tab in ((private_rows(net, "trafo"), "private table rows", "res_trafo"), (direct_2w(net), "values entered directly", None)):
                pp.runpp(other, calculate_voltage_angles=True)
                _cmp(net, other, tab, fails, f"{name} vs {label}")
    else:
        cases = [((1, 2), (0, 0), ("hv", "hv"), (False, False)), ((2, 1), (0, 1), ("hv", "mv"), (False, True)),
                 ((1, 2, -1), (0, 1, 1), ("hv", "lv", "mv"), (False, True, False)), ((2, 1), (1, 1), ("mv", "mv"), (True, False)),
                 ((1, 2), (0, 1), ("hv", "hv"), (False, True)), ((2, -1, 1), (0, 0, 1), ("lv", "hv", "hv"), (True, True, False))]
        for pos, ids, sides, stars in cases:
            net = net_3w(pos, ids, sides, stars)
            name = f"3W pos={pos} ids={ids} sides={sides} star={stars}"
            pp.runpp(net, calculate_voltage_angles=True)
            # (a) sharing-independence
            other = private_rows(net, "trafo3w")
            pp.runpp(other, calculate_voltage_angles=True)
            _cmp(net, other, "res_trafo3w", fails, f"{name} vs private table rows")
            # (b) population independence: every transformer alone in its own network gives the same terminal results
            for k in range(len(pos)):
                single = net_3w(pos[k:k + 1], ids[k:k + 1], sides[k:k + 1], stars[k:k + 1])
                single.load["p_mw"] = net.load.p_mw.values[2 * k:2 * k + 2]; single.load["q_mvar"] = net.load.q_mvar.values[2 * k:2 * k + 2]
                pp.runpp(single, calculate_voltage_angles=True)
                for col in ("p_hv_mw", "q_hv_mvar", "p_mv_mw", "vm_mv_pu", "va_lv_degree", "vm_lv_pu"):
                    x, y = net.res_trafo3w[col].values[k], single.res_trafo3w[col].values[0]
                    if not np.isclose(x, y, rtol=1e-6, atol=1e-8):
                        fails.append(f"{name}: trafo3w {k} {col} = {x:.6f} in the common network but {y:.6f} alone")
                        break
    for f in fails:
        print("REPRODUCED:", f)
    if not fails:
        print(f"not reproduced: {kind} table transformers use their own rows on all replay networks")
    sys.exit(1 if fails else 0)


if __name__ == "__main__":
    main(sys.argv[1] if len(sys.argv) > 1 else "2W")


def main_sc():
    """short-circuit calculation: transformers with tap_dependency_table against the same transformers with the values of their table rows
    entered directly (the table's voltage ratio equals the Ratio tap changer that stays entered)"""
    import copy
    import pandapower.shortcircuit as sc
    fails = []
    rows = []
    for cid in (0, 1):
        for step in range(-2, 3):
            rows.append(dict(id_characteristic=cid, step=step, voltage_ratio=1 + 0.0125 * step, angle_deg=0., vk_percent=12. + 2 * step + cid,
                             vkr_percent=0.4 + 0.05 * step, vk_hv_percent=10. + step + cid, vkr_hv_percent=0.3 + 0.02 * step,
                             vk_mv_percent=11. + step, vkr_mv_percent=0.31, vk_lv_percent=12. - step, vkr_lv_percent=0.32))
    table = pd.DataFrame(rows)

    def net2w():
        net = pp.create_empty_network()
        b0 = pp.create_bus(net, 110.)
        pp.create_ext_grid(net, b0, s_sc_max_mva=5000, rx_max=0.1, s_sc_min_mva=3000, rx_min=0.1, x0x_max=1.0, r0x0_max=0.1, x0x_min=1.0, r0x0_min=0.1)
        for cid, pos in ((0, 2), (0, -2), (1, 1)):
            lv = pp.create_bus(net, 20.)
            pp.create_transformer_from_parameters(net, b0, lv, sn_mva=25, vn_hv_kv=110, vn_lv_kv=20, vkr_percent=0.4, vk_percent=12., pfe_kw=10,
                                                  i0_percent=0.05, tap_side="hv", tap_neutral=0, tap_min=-2, tap_max=2, tap_step_percent=1.25,
                                                  tap_step_degree=0, tap_pos=pos, tap_changer_type="Ratio", tap_dependency_table=True,
                                                  id_characteristic_table=cid, vector_group="Dyn", vk0_percent=11., vkr0_percent=0.4,
                                                  mag0_percent=100., mag0_rx=0., si0_hv_partial=0.9)
        net["trafo_characteristic_table"] = table.copy()
        return net

    def direct(net):
        d = copy.deepcopy(net)
        tab = table.set_index(["id_characteristic", "step"])
        for i in d.trafo.index:
            row = tab.loc[(d.trafo.at[i, "id_characteristic_table"], d.trafo.at[i, "tap_pos"])]
            d.trafo.at[i, "tap_dependency_table"] = False
            d.trafo.at[i, "vk_percent"] = row.vk_percent
            d.trafo.at[i, "vkr_percent"] = row.vkr_percent
        return d
    net = net2w()
    ref = direct(net)
    for fault, case in (("3ph", "max"), ("3ph", "min"), ("1ph", "max")):
        try:
            sc.calc_sc(net, case=case, fault=fault); sc.calc_sc(ref, case=case, fault=fault)
        except Exception as e:
            print(f"note: calc_sc(fault={fault}, case={case}) raised {type(e).__name__}: {e}")
            continue
        for bus in net.trafo.lv_bus:
            a, b = net.res_bus_sc.ikss_ka.at[bus], ref.res_bus_sc.ikss_ka.at[bus]
            if abs(a / b - 1) > 1e-6:
                fails.append(f"calc_sc(fault={fault}, case={case}), bus {bus}: ikss_ka = {a:.5f} with the tap dependency table, {b:.5f} with the values "
                             f"of the table row entered directly ({(a / b - 1) * 100:+.2f} %)")
                break
    for f in fails:
        print("REPRODUCED:", f)
    if not fails:
        print("not reproduced: short-circuit currents of table transformers equal those with the row values entered directly")
    sys.exit(1 if fails else 0)
