"""Native replay for C26: graph edges vs an independent enumeration, distances vs Bellman-Ford.  exit 1 = reproduced."""
import sys
import itertools
import numpy as np
import pandapower as pp
import pandapower.topology as top


def _net():
    net = pp.create_empty_network()
    b = pp.create_buses(net, 9, 20.)
    hv = pp.create_bus(net, 110.); mv = pp.create_bus(net, 20.); lv = pp.create_bus(net, 10.)
    pp.create_ext_grid(net, hv)
    pp.create_transformer3w_from_parameters(net, hv, mv, lv, 110., 20., 10., 60., 40., 25., 10., 11., 12., .3, .31, .32, 30., .1)
    pp.create_transformer_from_parameters(net, hv, b[0], 40., 110., 20., .4, 12., 20., .05)
    L = lambda f, t, km, **k: pp.create_line_from_parameters(net, f, t, km, .12, .11, 250., .6, **k)
    L(b[0], b[1], 2.); L(b[0], b[1], 6.)                     # parallel lines of different length (short one first)
    L(b[1], b[2], 1.5); L(b[2], b[3], 2.5); L(b[3], b[4], 1.); L(b[4], b[0], 9.)
    L(b[4], b[5], 1., in_service=False); L(b[5], b[6], 1.)
    L(mv, b[6], 3.)
    L(b[7], b[8], 1.)
    pp.create_switch(net, b[2], 3, "l", closed=False)          # open line switch
    pp.create_switch(net, b[3], b[7], "b", closed=True)        # closed bus-bus switch
    pp.create_switch(net, b[6], b[8], "b", closed=False)
    pp.create_switch(net, mv, 0, "t3", closed=False)           # open switch at the mv side of the trafo3w
    pp.create_switch(net, b[0], 0, "t", closed=True)
    pp.create_impedance(net, b[1], b[3], .01, .02, 10.)
    net.bus.at[b[5], "in_service"] = False
    return net


def expected_edges(net, respect):
    sw = net.switch
    opened = lambda code: sw[(sw.et == code) & ~sw.closed] if respect else sw.iloc[0:0]
    bus_ok = set(net.bus.index[net.bus.in_service])
    E = []
    ol = set(opened("l").element)
    for i, r in net.line.iterrows():
        if r.in_service and i not in ol:
            E.append((r.from_bus, r.to_bus, r.length_km))
    ot = set(opened("t").element)
    for i, r in net.trafo.iterrows():
        if r.in_service and i not in ot:
            E.append((r.hv_bus, r.lv_bus, 0.))
    o3 = set(zip(opened("t3").element, opened("t3").bus))
    for i, r in net.trafo3w.iterrows():
        for f, t in itertools.combinations(("hv_bus", "mv_bus", "lv_bus"), 2):
            if r.in_service and (i, r[f]) not in o3 and (i, r[t]) not in o3:
                E.append((r[f], r[t], 0.))
    for i, r in net.impedance.iterrows():
        if r.in_service:
            E.append((r.from_bus, r.to_bus, 0.))
    for i, r in sw.iterrows():
        if r.et == "b" and (r.closed or not respect):
            E.append((r.bus, r.element, 0.))
    return [(int(f), int(t), w) for f, t, w in E if f in bus_ok and t in bus_ok]


def main():
    fails = []
    net = _net()
    for respect in (True, False):
        g = top.create_nxgraph(net, respect_switches=respect)
        got = sorted((min(u, v), max(u, v), round(d.get("weight", 0.), 9)) for u, v, d in g.edges(data=True))
        want = sorted((min(u, v), max(u, v), round(w, 9)) for u, v, w in expected_edges(net, respect))
        if got != want:
            fails.append(f"respect_switches={respect}: edges differ: only in graph {sorted(set(got) - set(want))[:3]}, missing {sorted(set(want) - set(got))[:3]}")
        if set(g.nodes()) != set(net.bus.index[net.bus.in_service]):
            fails.append(f"respect_switches={respect}: node set is not the set of in-service buses")
        comps = list(top.connected_components(g))
        if sorted(x for c in comps for x in c) != sorted(g.nodes()):
            fails.append(f"respect_switches={respect}: connected_components is not a partition of the nodes")
        # distances: Bellman-Ford over the expected edges
        src = int(net.ext_grid.bus.iat[0])
        dist = {src: 0.}
        edges = expected_edges(net, respect)
        for _ in range(len(net.bus)):
            for f, t, w in edges:
                for a, c in ((f, t), (t, f)):
                    if a in dist and dist[a] + w < dist.get(c, np.inf) - 1e-12:
                        dist[c] = dist[a] + w
        d = top.calc_distance_to_bus(net, src, respect_switches=respect)
        for bus, val in dist.items():
            if bus not in d.index or not np.isclose(d.at[bus], val, atol=1e-9):
                fails.append(f"respect_switches={respect}: distance {src}->{bus} is {d.get(bus, float('nan')):.3f} km, shortest path is {val:.3f} km")
                break
        if set(d.index) != set(dist):
            fails.append(f"respect_switches={respect}: reachable set differs")
    for f in fails:
        print("REPRODUCED:", f)
    if not fails:
        print("not reproduced: graph edges, components and distances agree with the independent enumeration")
    sys.exit(1 if fails else 0)


def main_nodes():
    """out-of-service buses are no nodes of the graph, whatever nogobuses / notravbuses are given"""
    import pandapower.topology as top
    fails = []
    net = pp.create_empty_network()
    b = pp.create_buses(net, 7, 20.)
    pp.create_ext_grid(net, b[0])
    for f, t in zip(b[:-1], b[1:]):
        pp.create_line_from_parameters(net, f, t, 1., 0.1, 0.1, 10., 0.4)
    net.bus.at[b[3], "in_service"] = False
    net.bus.at[b[5], "in_service"] = False
    for nogo in (None, [b[1]], [b[1], b[6]], [b[0], b[1], b[2]]):
        mg = top.create_nxgraph(net, nogobuses=nogo)
        left = [x for x in (b[3], b[5]) if x in mg]
        if left:
            fails.append(f"nogobuses={nogo}: out-of-service buses {left} are nodes of the graph")
        if nogo is not None and b[2] not in nogo:
            comp = set(top.connected_component(mg, b[2]))
            if comp & {b[3], b[4], b[5], b[6]}:
                fails.append(f"nogobuses={nogo}: from bus {b[2]} the graph reaches {sorted(comp)} across the out-of-service bus {b[3]}")
    for f in fails:
        print("REPRODUCED:", f)
    if not fails:
        print("not reproduced: out-of-service buses are removed from the graph")
    sys.exit(1 if fails else 0)


def _adjacency_ok(mg, notrav=()):
    """every neighbour recorded in the adjacency is a node of the graph (remove_node / the notravbuses handling must not leave
    half-removed edges behind)"""
    nodes = set(mg.nodes())
    for u in nodes:
        for v in mg.adj[u]:
            if v not in nodes:
                return f"the adjacency of node {u} names {v}, which is not a node of the graph"
    return None


def main_notrav():
    """notravbuses together with out-of-service buses; connected_components with notravbuses covers every node once"""
    fails = []

    def chain(n, oos=()):
        net = pp.create_empty_network()
        b = pp.create_buses(net, n, 20.)
        pp.create_ext_grid(net, b[0])
        for f, t in zip(b[:-1], b[1:]):
            pp.create_line_from_parameters(net, f, t, 1., 0.1, 0.1, 10., 0.4)
        for x in oos:
            net.bus.at[b[x], "in_service"] = False
        return net
    for oos, notrav in (((1,), [1]), ((2,), [1]), ((3,), [1]), ((), [1]), ((1, 2), [2])):
        net = chain(5, oos)
        tag = f"chain 0-1-2-3-4, out-of-service buses {list(oos)}, notravbuses={notrav}"
        try:
            mg = top.create_nxgraph(net, notravbuses=notrav)
        except Exception as e:
            fails.append(f"{tag}: create_nxgraph raises {type(e).__name__}({e})")
            continue
        if set(mg.nodes()) != set(net.bus.index[net.bus.in_service]):
            fails.append(f"{tag}: nodes {sorted(mg.nodes())} are not the in-service buses")
        bad = _adjacency_ok(mg)
        if bad:
            fails.append(f"{tag}: {bad}")
            continue
        try:
            comps = [set(c) for c in top.connected_components(mg)]
            d = top.calc_distance_to_bus(net, 0, notravbuses=notrav)
        except Exception as e:
            fails.append(f"{tag}: graph search raises {type(e).__name__}({e})")
            continue
        # a notravbus is a member of the component on each of its sides; all other buses are in exactly one component
        if set().union(*comps) != set(mg.nodes()) or any(sum(x in c for c in comps) != 1 for x in set(mg.nodes()) - set(notrav)):
            fails.append(f"{tag}: connected_components {comps} does not cover the nodes {sorted(mg.nodes())} / partition the other buses")
    # connected_components(mg, notravbuses): the buses that are not notravbuses are partitioned, every notravbus belongs to (at least)
    # one component, no component is reported twice
    net = chain(6)
    pp.create_line_from_parameters(net, 1, 2, 1., 0.1, 0.1, 10., 0.4)           # double line 1-2
    iso = pp.create_bus(net, 20.)                                              # a bus without any connection
    mg = top.create_nxgraph(net)
    for notrav in (set(), {3}, {1, 2}, {iso}, {0, iso}, {2, 3, 4}):
        comps = [frozenset(c) for c in top.connected_components(mg, notravbuses=set(notrav))]
        tag = f"chain 0..5 with a double line 1-2 and an isolated bus {iso}, connected_components(mg, notravbuses={sorted(notrav)})"
        union = set().union(*comps) if comps else set()
        if union != set(mg.nodes()):
            fails.append(f"{tag}: buses {sorted(set(mg.nodes()) - union)} are in no component")
        if len(set(comps)) != len(comps):
            fails.append(f"{tag}: a component is reported more than once: {[sorted(c) for c in comps]}")
        for x in set(mg.nodes()) - set(notrav):
            if sum(x in c for c in comps) != 1:
                fails.append(f"{tag}: bus {x} is in {sum(x in c for c in comps)} components")
                break
    for f in fails:
        print("REPRODUCED:", f)
    if not fails:
        print("not reproduced: notravbuses and out-of-service buses leave a consistent graph; components cover the nodes")
    sys.exit(1 if fails else 0)


if __name__ == "__main__":
    main()
