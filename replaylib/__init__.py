"""Native replays and bounded stand-ins (run against the tree named by PYTHONPATH)."""
import sys


def run_all(*functions):
    """runs every function (each ends in sys.exit); exits with the worst exit code, so that a known finding reproduced by an earlier function
    does not hide what a later one finds"""
    worst = 0
    for f in functions:
        try:
            f()
        except SystemExit as e:
            code = e.code if isinstance(e.code, int) else (0 if e.code is None else 1)
            worst = max(worst, code)
    sys.exit(worst)
