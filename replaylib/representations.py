"""Native replay for C05: equivalent re-representations of one network give the same physical results.  exit 1 = reproduced."""
import sys
import copy
import numpy as np
import pandapower as pp


def _net(z_ohm=0.03):
    net = pp.create_empty_network(sn_mva=1.)
    b = pp.create_buses(net, 6, 0.4)
    hv = pp.create_bus(net, 20.)
    pp.create_ext_grid(net, hv, vm_pu=1.02)
    pp.create_transformer_from_parameters(net, hv, b[0], sn_mva=0.63, vn_hv_kv=20., vn_lv_kv=0.4, vkr_percent=1.1, vk_percent=6., pfe_kw=1., i0_percent=0.2)
    pp.create_line_from_parameters(net, b[0], b[1], 0.3, 0.2, 0.08, 260., 0.27, parallel=2)
    pp.create_line_from_parameters(net, b[1], b[2], 0.25, 0.2, 0.08, 260., 0.27)
    pp.create_line_from_parameters(net, b[3], b[4], 0.2, 0.2, 0.08, 260., 0.27)
    pp.create_line_from_parameters(net, b[4], b[5], 0.2, 0.32, 0.08, 260., 0.2)
    pp.create_switch(net, b[2], b[3], "b", closed=True, z_ohm=z_ohm)       # bus coupler with impedance
    pp.create_load(net, b[2], 0.06, 0.02); pp.create_load(net, b[4], 0.08, 0.03); pp.create_load(net, b[5], 0.05, 0.01)
    pp.create_sgen(net, b[5], 0.03, 0.0)
    return net


def main():
    fails = []
    for z in (0.0, 0.03):
        ref = _net(z)
        pp.runpp(ref, tolerance_mva=1e-10)
        # (1) per-unit base
        for s in (0.1, 10., 100.):
            n = _net(z); n.sn_mva = s
            try:
                pp.runpp(n, tolerance_mva=1e-10)
            except pp.LoadflowNotConverged:
                fails.append(f"z_ohm={z}: the power flow converges with sn_mva=1 but not with sn_mva={s}")
                continue
            d = np.max(np.abs(n.res_bus.vm_pu.values - ref.res_bus.vm_pu.values))
            if d > 1e-6:
                fails.append(f"z_ohm={z}: bus voltages depend on the per-unit base (sn_mva={s}: max |dvm_pu| = {d:.1e})")
            d = np.max(np.abs(n.res_line.p_from_mw.values - ref.res_line.p_from_mw.values))
            if d > 1e-6:
                fails.append(f"z_ohm={z}: line flows depend on the per-unit base (sn_mva={s}: max |dp| = {d:.1e} MW)")
        # (2) parallel line -> two lines
        n = _net(z)
        n.line.at[0, "parallel"] = 1
        pp.create_line_from_parameters(n, n.line.from_bus.at[0], n.line.to_bus.at[0], 0.3, 0.2, 0.08, 260., 0.27)
        pp.runpp(n, tolerance_mva=1e-10)
        if np.max(np.abs(n.res_bus.vm_pu.values - ref.res_bus.vm_pu.values)) > 1e-8:
            fails.append(f"z_ohm={z}: parallel=2 differs from two identical lines")
        # (3) swapped ends
        n = _net(z)
        n.line.loc[1, ["from_bus", "to_bus"]] = n.line.loc[1, ["to_bus", "from_bus"]].values
        pp.runpp(n, tolerance_mva=1e-10)
        if np.max(np.abs(n.res_bus.vm_pu.values - ref.res_bus.vm_pu.values)) > 1e-8 or \
                not np.isclose(n.res_line.p_from_mw.at[1], ref.res_line.p_to_mw.at[1], atol=1e-9):
            fails.append(f"z_ohm={z}: swapping the ends of a line changes the results")
    for f in fails:
        print("REPRODUCED:", f)
    if not fails:
        print("not reproduced: results are invariant under the replayed re-representations")
    sys.exit(1 if fails else 0)


def main_tables():
    """table-level re-representations: rows permuted, indices relabelled, out-of-service elements added (also ahead of the others, next to a
    line that ends at an out-of-service bus), a load split in two, a bus split into two fused buses"""
    fails = []

    def base(spare_first=None):
        net = pp.create_empty_network()
        b = pp.create_buses(net, 6, 20.)
        pp.create_ext_grid(net, b[0], vm_pu=1.02)
        if spare_first is True:
            pp.create_line_from_parameters(net, b[0], b[2], 4., 0.12, 0.11, 250., 0.6, in_service=False)      # spare cable, out of service
        for f, t in ((0, 1), (1, 2), (2, 3), (3, 4), (2, 5)):
            pp.create_line_from_parameters(net, b[f], b[t], 3., 0.12, 0.11, 250., 0.6)
        if spare_first is False:
            pp.create_line_from_parameters(net, b[0], b[2], 4., 0.12, 0.11, 250., 0.6, in_service=False)
        net.bus.at[b[5], "in_service"] = False                                                                 # energised spur to a dead bus
        pp.create_load(net, b[2], 2., .5); pp.create_load(net, b[4], 3., .8); pp.create_sgen(net, b[3], 1., .1)
        return net

    def vm(net):
        pp.runpp(net, tolerance_mva=1e-10)
        return net.res_bus.vm_pu.sort_index().values, net.res_ext_grid.p_mw.sum()
    ref_vm, ref_p = vm(base())

    def cmp(name, net, sel=None):
        v, p_ = vm(net)
        v = v if sel is None else v[sel]
        if len(v) != len(ref_vm) or not np.allclose(v, ref_vm, atol=1e-8, equal_nan=True) or abs(p_ - ref_p) > 1e-7:
            fails.append(f"{name}: bus voltages / slack power differ from the reference representation (slack {p_:.6f} vs {ref_p:.6f} MW, "
                         f"max |dvm| = {np.nanmax(np.abs(np.nan_to_num(v) - np.nan_to_num(ref_vm))) if len(v) == len(ref_vm) else float('nan'):.2e})")
    cmp("out-of-service line appended as the last row", base(False))
    cmp("out-of-service line as the first row", base(True))
    n = base(False)
    n.line = n.line.iloc[::-1]
    cmp("rows of net.line reversed (out-of-service line first)", n)
    n = base()
    n.load = n.load.iloc[::-1]; n.bus = n.bus.iloc[[3, 0, 5, 1, 4, 2]]
    cmp("rows of net.load and net.bus permuted", n)
    n = base()
    pp.create_load(n, 2, 0.8, 0.2); n.load.at[0, "p_mw"] = 1.2; n.load.at[0, "q_mvar"] = 0.3
    cmp("load split in two at the same bus", n)
    n = base()
    extra = pp.create_bus(n, 20.)
    pp.create_switch(n, 4, extra, "b", closed=True)
    n.load.at[1, "bus"] = extra
    cmp("load moved to a bus fused with its bus by a closed bus-bus switch", n, sel=slice(0, 6))
    n = base()
    pp.create_load(n, 1, 0., 0.); pp.create_sgen(n, 4, 5., 1., in_service=False); pp.create_load(n, 3, 4., 1., in_service=False)
    cmp("zero-power and out-of-service elements added", n)
    # calculate_voltage_angles="auto" (documented: True iff a bus above 70 kV is connected to a line): must not depend on the orientation of the
    # lines or on the row of the high-voltage bus
    def hv(swap, hv_first):
        net = pp.create_empty_network()
        order = [1, 2, 3, 0] if hv_first else [0, 1, 2, 3]
        vn = {0: 20., 1: 110., 2: 110., 3: 110.}
        for i in order:
            pp.create_bus(net, vn[i], index=i)
        pp.create_ext_grid(net, 1)
        pp.create_line_from_parameters(net, 1, 2, 20., 0.06, 0.3, 10., 1.)
        pp.create_line_from_parameters(net, *((3, 2) if swap else (2, 3)), 20., 0.06, 0.3, 10., 1.)
        pp.create_transformer_from_parameters(net, 3, 0, sn_mva=25., vn_hv_kv=110., vn_lv_kv=20., vkr_percent=0.4, vk_percent=10., pfe_kw=10.,
                                              i0_percent=0.05, shift_degree=150.)
        pp.create_load(net, 0, 4., 1.)
        pp.runpp(net, calculate_voltage_angles="auto")
        return net.res_bus.va_degree.sort_index().values
    ref_va = hv(False, False)
    for swap, hv_first in ((True, False), (False, True), (True, True)):
        va = hv(swap, hv_first)
        if not np.allclose(va, ref_va, atol=1e-6):
            fails.append(f"calculate_voltage_angles='auto': with {'the second 110 kV line entered with swapped ends' if swap else 'the same lines'}"
                         f"{' and the 110 kV buses as first rows' if hv_first else ''} the bus angles are {np.round(va, 3)}, reference {np.round(ref_va, 3)}")
    for f in fails:
        print("REPRODUCED:", f)
    if not fails:
        print("not reproduced: results are invariant under the replayed table re-representations")
    sys.exit(1 if fails else 0)


if __name__ == "__main__":
    main()


def main_relabel():
    """the same network with bus labels 0..n-1 and with relabelled buses (gap, offset): elements with auxiliary buses"""
    fails = []

    def ssc(labels):
        net = pp.create_empty_network(sn_mva=100.)
        b = [pp.create_bus(net, 110., index=i) for i in labels]
        pp.create_ext_grid(net, b[0], 1.02)
        for i, j in ((0, 1), (1, 2), (2, 3), (3, 4), (0, 4)):
            pp.create_line_from_parameters(net, b[i], b[j], 30., 0.06, 0.3, 10., 0.6)
        for k in b[1:]:
            pp.create_load(net, k, 20., 8.)
        pp.create_ssc(net, b[2], r_ohm=0., x_ohm=5., set_vm_pu=1.0, controllable=False, vm_internal_pu=1.01, va_internal_degree=-3.)
        return net, {}

    def xward(labels):
        net = pp.create_empty_network()
        b = [pp.create_bus(net, 110., index=i) for i in labels]
        pp.create_ext_grid(net, b[0], vm_pu=1.01, slack_weight=1.)
        pp.create_gen(net, b[1], p_mw=30., vm_pu=1.01, slack_weight=2.)
        pp.create_xward(net, b[3], 5., 1., 0.5, 0.2, 0., 5., 1.0, slack_weight=0.5)
        for i, j in ((0, 1), (1, 2), (2, 3), (3, 4), (4, 0)):
            pp.create_line_from_parameters(net, b[i], b[j], 20., 0.06, 0.3, 10., 0.8)
        pp.create_load(net, b[2], 70., 10.); pp.create_load(net, b[4], 45., 5.)
        return net, dict(distributed_slack=True)
    for tag, build in (("SSC with controllable=False", ssc), ("xward with distributed_slack=True", xward)):
        ref, kw = build([0, 1, 2, 3, 4])
        pp.runpp(ref, tolerance_mva=1e-9, **kw)
        for name, labels in (("one gap (0, 1, 2, 3, 5)", [0, 1, 2, 3, 5]), ("offset (10 .. 14)", [10, 11, 12, 13, 14])):
            net, kw = build(labels)
            try:
                pp.runpp(net, tolerance_mva=1e-9, **kw)
            except Exception as e:
                fails.append(f"{tag}, bus labels {name}: runpp raises {type(e).__name__}: {str(e)[:90]} (labels 0..4: converges, slack "
                             f"{ref.res_ext_grid.p_mw.sum():.4f} MW)")
                continue
            if np.max(np.abs(net.res_bus.vm_pu.values - ref.res_bus.vm_pu.values)) > 1e-7:
                fails.append(f"{tag}, bus labels {name}: voltages differ from the network with labels 0..4")
    for f in fails:
        print("REPRODUCED:", f)
    if not fails:
        print("not reproduced: results do not depend on the bus labels")
    sys.exit(1 if fails else 0)
