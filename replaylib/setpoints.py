"""Native replay for C04: setpoints and response laws in converged power flows.  exit 1 = violation reproduced."""
import sys
import numpy as np
import pandapower as pp


def _net():
    net = pp.create_empty_network()
    b = pp.create_buses(net, 5, 20.)
    pp.create_ext_grid(net, b[0], vm_pu=1.02, va_degree=7.)
    for f, t in ((0, 1), (1, 2), (2, 3), (3, 4), (4, 0)):
        pp.create_line_from_parameters(net, b[f], b[t], 3., 0.12, 0.11, 250., 0.6)
    pp.create_gen(net, b[2], p_mw=4., vm_pu=1.015, scaling=0.9, min_q_mvar=-8., max_q_mvar=8.)
    pp.create_gen(net, b[4], p_mw=2., vm_pu=1.01, min_q_mvar=-0.3, max_q_mvar=0.3)
    pp.create_sgen(net, b[1], p_mw=1.5, q_mvar=0.2, scaling=0.8)
    pp.create_load(net, b[3], p_mw=5., q_mvar=1.5, scaling=1.1, const_z_p_percent=30., const_i_p_percent=20., const_z_q_percent=10., const_i_q_percent=40.)
    pp.create_load(net, b[1], p_mw=3., q_mvar=1.)
    pp.create_storage(net, b[2], p_mw=-0.7, max_e_mwh=3., q_mvar=0.1, scaling=1.2)
    pp.create_shunt(net, b[3], q_mvar=-0.8, p_mw=0.05, vn_kv=20.5, step=2, max_step=3)
    return net


def _cascade_net():
    """q limits become binding one after the other (the second gen only after the first has been converted to PQ)"""
    net = pp.create_empty_network()
    b = pp.create_buses(net, 5, 110.)
    pp.create_ext_grid(net, b[0], vm_pu=1.0)
    for f, t in ((0, 1), (1, 2), (2, 3), (3, 4)):
        pp.create_line_from_parameters(net, b[f], b[t], 25., 0.06, 0.4, 10., 1.)
    pp.create_gen(net, b[1], p_mw=25., vm_pu=1.03, min_q_mvar=-8., max_q_mvar=18.)
    pp.create_gen(net, b[2], p_mw=22., vm_pu=1.03, min_q_mvar=-8., max_q_mvar=24.)
    pp.create_load(net, b[1], 45., 42.); pp.create_load(net, b[2], 18., 9.); pp.create_load(net, b[3], 9., 4.); pp.create_load(net, b[4], 4., 2.)
    return net


def _gen_checks(net, tag, fails):
    vm = net.res_bus.vm_pu
    for g in net.gen.index:
        bus = net.gen.bus.at[g]
        q, lo, hi = net.res_gen.q_mvar.at[g], net.gen.min_q_mvar.at[g], net.gen.max_q_mvar.at[g]
        qnet = net.res_line.q_from_mvar[net.line.from_bus == bus].sum() + net.res_line.q_to_mvar[net.line.to_bus == bus].sum() + \
            net.res_load.q_mvar[net.load.bus == bus].sum()
        if not np.isclose(q, qnet, atol=1e-4):
            fails.append(f"{tag}: gen {g} reports q = {q:.4f} Mvar but the solved network takes {qnet:.4f} Mvar from it")
        if qnet > hi + 1e-4 or qnet < lo - 1e-4:
            fails.append(f"{tag}: gen {g} injects {qnet:.4f} Mvar, outside [{lo}, {hi}] with enforce_q_lims")
        held = np.isclose(vm.at[bus], net.gen.vm_pu.at[g], atol=1e-6)
        if not held and not (np.isclose(qnet, lo, atol=1e-4) or np.isclose(qnet, hi, atol=1e-4)):
            fails.append(f"{tag}: gen {g} neither holds its voltage setpoint nor sits at a reactive limit")


def main():
    fails = []
    cn = _cascade_net()
    pp.runpp(cn, enforce_q_lims=True)
    _gen_checks(cn, "cascading q limits", fails)
    for kw in (dict(), dict(calculate_voltage_angles=True), dict(voltage_depend_loads=False), dict(enforce_q_lims=True),
               dict(enforce_q_lims=True, voltage_depend_loads=True, calculate_voltage_angles=True)):
        net = _net()
        pp.runpp(net, **kw)
        tag = str(kw)
        vm, va = net.res_bus.vm_pu, net.res_bus.va_degree
        eb = net.ext_grid.bus.at[0]
        if not np.isclose(vm.at[eb], 1.02, atol=1e-9):
            fails.append(f"{tag}: ext_grid bus voltage {vm.at[eb]} != 1.02")
        if kw.get("calculate_voltage_angles") and not np.isclose(va.at[eb], 7., atol=1e-9):
            fails.append(f"{tag}: ext_grid bus angle {va.at[eb]} != 7")
        for g in net.gen.index:
            q, lo, hi = net.res_gen.q_mvar.at[g], net.gen.min_q_mvar.at[g], net.gen.max_q_mvar.at[g]
            held = np.isclose(vm.at[net.gen.bus.at[g]], net.gen.vm_pu.at[g], atol=1e-7)
            if kw.get("enforce_q_lims"):
                if q < lo - 1e-6 or q > hi + 1e-6:
                    fails.append(f"{tag}: gen {g} q = {q:.5f} outside [{lo}, {hi}] with enforce_q_lims")
                if not held and not (np.isclose(q, lo, atol=1e-6) or np.isclose(q, hi, atol=1e-6)):
                    fails.append(f"{tag}: gen {g} neither holds its voltage setpoint nor sits at a reactive limit")
            elif not held:
                fails.append(f"{tag}: gen {g} bus voltage {vm.at[net.gen.bus.at[g]]:.6f} != setpoint {net.gen.vm_pu.at[g]}")
            if not np.isclose(net.res_gen.p_mw.at[g], net.gen.p_mw.at[g] * net.gen.scaling.at[g], atol=1e-9):
                fails.append(f"{tag}: gen {g} p != p_mw * scaling")
        for et in ("sgen", "storage"):
            if not np.allclose(net["res_" + et].p_mw.values, net[et].p_mw.values * net[et].scaling.values, atol=1e-9):
                fails.append(f"{tag}: {et} p != p_mw * scaling")
        for l in net.load.index:
            v = vm.at[net.load.bus.at[l]] if kw.get("voltage_depend_loads", True) else 1.0
            for q, zc, ic in (("p_mw", "const_z_p_percent", "const_i_p_percent"), ("q_mvar", "const_z_q_percent", "const_i_q_percent")):
                cz, ci = net.load.at[l, zc] / 100, net.load.at[l, ic] / 100
                want = net.load.at[l, q] * net.load.scaling.at[l] * ((1 - cz - ci) + ci * v + cz * v * v)
                if not np.isclose(net.res_load.at[l, q], want, atol=1e-8):
                    fails.append(f"{tag}: load {l} {q} = {net.res_load.at[l, q]:.6f}, ZIP law gives {want:.6f}")
        s = net.shunt.iloc[0]
        want = s.step * s.p_mw * (vm.at[s.bus] * net.bus.vn_kv.at[s.bus] / s.vn_kv) ** 2
        if not np.isclose(net.res_shunt.p_mw.iat[0], want, atol=1e-9):
            fails.append(f"{tag}: shunt p = {net.res_shunt.p_mw.iat[0]:.6f}, law gives {want:.6f}")
        # the gen's reactive power must be what the network actually takes from it (nodal balance at the gen bus)
        for g in net.gen.index:
            bus = net.gen.bus.at[g]
            qbranch = net.res_line.q_from_mvar[net.line.from_bus == bus].sum() + net.res_line.q_to_mvar[net.line.to_bus == bus].sum()
            qel = net.res_load.q_mvar[net.load.bus == bus].sum() + net.res_storage.q_mvar[net.storage.bus == bus].sum() - \
                net.res_sgen.q_mvar[net.sgen.bus == bus].sum() + net.res_shunt.q_mvar[net.shunt.bus == bus].sum()
            if not np.isclose(net.res_gen.q_mvar.at[g], qbranch + qel, atol=1e-5):
                fails.append(f"{tag}: gen {g} reports q = {net.res_gen.q_mvar.at[g]:.5f} but the network takes {qbranch + qel:.5f} from it")
    for f in fails:
        print("REPRODUCED:", f)
    if not fails:
        print("not reproduced: setpoints and response laws hold on all replay power flows")
    sys.exit(1 if fails else 0)


def main_shunt():
    """shunts (step, own voltage rating, missing rating), wards, xwards: voltage law of the results and nodal balance at their buses"""
    fails = []
    net = pp.create_empty_network()
    b = pp.create_buses(net, 4, 20.)
    pp.create_ext_grid(net, b[0], vm_pu=1.03)
    for f, t in ((0, 1), (1, 2), (2, 3)):
        pp.create_line_from_parameters(net, b[f], b[t], 6., 0.12, 0.11, 250., 0.6)
    pp.create_load(net, b[3], 4., 1.5)
    pp.create_shunt(net, b[1], q_mvar=-0.9, p_mw=0.04, vn_kv=21., step=2, max_step=3)
    pp.create_shunt(net, b[1], q_mvar=0.5, p_mw=0.02, step=1)
    pp.create_shunt(net, b[2], q_mvar=0.7, p_mw=0.03, vn_kv=19., step=3, max_step=3, in_service=False)
    pp.create_ward(net, b[2], ps_mw=0.6, qs_mvar=0.2, pz_mw=0.5, qz_mvar=0.3)
    pp.create_ward(net, b[3], ps_mw=0.1, qs_mvar=0.1, pz_mw=0.2, qz_mvar=-0.1)
    pp.create_xward(net, b[2], ps_mw=0.3, qs_mvar=0.1, pz_mw=0.4, qz_mvar=0.2, r_ohm=0.5, x_ohm=2., vm_pu=1.0)
    pp.create_xward(net, b[1], ps_mw=0.2, qs_mvar=0.1, pz_mw=0.3, qz_mvar=0.25, r_ohm=0.5, x_ohm=2., vm_pu=1.0, in_service=False)
    pp.create_ward(net, b[1], ps_mw=0.2, qs_mvar=0.1, pz_mw=0.35, qz_mvar=0.15, in_service=False)
    pp.runpp(net)
    vm = net.res_bus.vm_pu
    for i in net.shunt.index:
        s = net.shunt.loc[i]
        vn = s.vn_kv if not np.isnan(s.vn_kv) else net.bus.vn_kv.at[s.bus]
        k = float(s.in_service) * s.step * (vm.at[s.bus] * net.bus.vn_kv.at[s.bus] / vn) ** 2
        for q in ("p_mw", "q_mvar"):
            if not np.isclose(net.res_shunt.at[i, q], k * s[q], atol=1e-9):
                fails.append(f"shunt {i}: {q} = {net.res_shunt.at[i, q]:.6f}, the law step * {q} * (vm * vn_bus / vn_shunt)^2 gives {k * s[q]:.6f}")
    for i in net.ward.index:
        w = net.ward.loc[i]
        for q, cs, cz in (("p_mw", "ps_mw", "pz_mw"), ("q_mvar", "qs_mvar", "qz_mvar")):
            want = (w[cs] + w[cz] * vm.at[w.bus] ** 2) * float(w.in_service)
            if not np.isclose(net.res_ward.at[i, q], want, atol=1e-9):
                fails.append(f"ward {i}: {q} = {net.res_ward.at[i, q]:.6f}, constant power + vm^2 * constant impedance gives {want:.6f}")
    for bus in net.bus.index:
        for q, fr, to in (("p_mw", "p_from_mw", "p_to_mw"), ("q_mvar", "q_from_mvar", "q_to_mvar")):
            branch = net.res_line[fr][net.line.from_bus == bus].sum() + net.res_line[to][net.line.to_bus == bus].sum()
            el = sum(net["res_" + et][q][net[et].bus == bus].sum() for et in ("load", "shunt", "ward", "xward")) \
                - net.res_ext_grid[q][net.ext_grid.bus == bus].sum()
            if abs(branch + el) > 1e-5:
                fails.append(f"bus {bus}: the lines take {branch:.6f} and the elements {el:.6f} ({q}): no nodal balance with the reported "
                             f"shunt / ward / xward results")
    for f in fails:
        print("REPRODUCED:", f)
    if not fails:
        print("not reproduced: shunt, ward and xward results follow the voltage law and balance at their buses")
    sys.exit(1 if fails else 0)


def main_shunt_dc():
    """DC power flow (all voltage magnitudes 1 p.u. in the model) with shunt-type elements at a generator bus whose setpoint is not 1 p.u."""
    fails = []
    net = pp.create_empty_network()
    b = pp.create_buses(net, 3, 20.)
    pp.create_ext_grid(net, b[0], vm_pu=1.0)
    pp.create_line_from_parameters(net, b[0], b[1], 5., 0.12, 0.11, 250., 0.6)
    pp.create_line_from_parameters(net, b[1], b[2], 5., 0.12, 0.11, 250., 0.6)
    pp.create_gen(net, b[1], p_mw=1., vm_pu=1.05)
    pp.create_shunt(net, b[1], q_mvar=0., p_mw=2.0)
    pp.create_ward(net, b[1], ps_mw=0.3, qs_mvar=0., pz_mw=0.5, qz_mvar=0.)
    pp.create_load(net, b[2], 3., 1.)
    pp.rundcpp(net)
    for bus in net.bus.index:
        branch = net.res_line.p_from_mw[net.line.from_bus == bus].sum() + net.res_line.p_to_mw[net.line.to_bus == bus].sum()
        el = sum(net["res_" + et].p_mw[net[et].bus == bus].sum() for et in ("load", "shunt", "ward")) \
            - net.res_ext_grid.p_mw[net.ext_grid.bus == bus].sum() - net.res_gen.p_mw[net.gen.bus == bus].sum()
        if abs(branch + el) > 1e-6:
            fails.append(f"DC power flow, bus {bus}: the lines take {branch:.6f} MW and the elements report {el:.6f} MW (shunt "
                         f"{net.res_shunt.p_mw.sum():.4f}, ward {net.res_ward.p_mw.sum():.4f}): no nodal balance")
        if abs(net.res_bus.p_mw.at[bus] - el) > 1e-6:
            fails.append(f"DC power flow, bus {bus}: res_bus.p_mw = {net.res_bus.p_mw.at[bus]:.6f} but the elements at the bus report {el:.6f}")
    for f in fails:
        print("REPRODUCED:", f)
    if not fails:
        print("not reproduced: DC shunt / ward results balance at their buses")
    sys.exit(1 if fails else 0)


if __name__ == "__main__":
    main()


def main_reference_buses_only():
    """enforce_q_lims in networks without any PQ / PV bus (every bus carries an ext_grid): gens at these buses stay inside their limits"""
    fails = []

    def one_bus():
        net = pp.create_empty_network()
        b0 = pp.create_bus(net, 110.)
        pp.create_ext_grid(net, b0, vm_pu=1.0)
        pp.create_gen(net, b0, p_mw=10., vm_pu=1.0, min_q_mvar=-1., max_q_mvar=1.)
        pp.create_load(net, b0, 60., 30.)
        return net

    def two_buses():
        net = one_bus()
        b1 = pp.create_bus(net, 110.)
        pp.create_ext_grid(net, b1, vm_pu=1.01)
        pp.create_line_from_parameters(net, 0, b1, 10., 0.06, 0.3, 10., 1.)
        pp.create_gen(net, b1, p_mw=5., vm_pu=1.01, min_q_mvar=-2., max_q_mvar=3.)
        pp.create_load(net, b1, 20., -25.)
        return net
    for name, build in (("one bus with ext_grid, gen and load", one_bus), ("two buses, an ext_grid and a gen at each", two_buses)):
        for algorithm in ("nr", "iwamoto_nr"):
            net = build()
            pp.runpp(net, enforce_q_lims=True, algorithm=algorithm)
            for g in net.gen.index:
                q, lo, hi = net.res_gen.q_mvar.at[g], net.gen.min_q_mvar.at[g], net.gen.max_q_mvar.at[g]
                if q < lo - 1e-6 or q > hi + 1e-6:
                    fails.append(f"{name}, algorithm={algorithm}: gen {g} q = {q:.4f} Mvar outside [{lo}, {hi}] with enforce_q_lims")
            for b in net.bus.index:
                # nodal balance of the reported reactive powers
                qb = net.res_gen.q_mvar[net.gen.bus == b].sum() + net.res_ext_grid.q_mvar[net.ext_grid.bus == b].sum() - \
                    net.res_load.q_mvar[net.load.bus == b].sum() - net.res_line.q_from_mvar[net.line.from_bus == b].sum() - \
                    net.res_line.q_to_mvar[net.line.to_bus == b].sum()
                if abs(qb) > 1e-5:
                    fails.append(f"{name}, algorithm={algorithm}: reactive power balance at bus {b} is off by {qb:.5f} Mvar")
    for f in fails:
        print("REPRODUCED:", f)
    if not fails:
        print("not reproduced: gens at reference buses respect their reactive limits")
    sys.exit(1 if fails else 0)
