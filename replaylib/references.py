"""Native replay for C22: after drop / reindex operations every reference points to an existing row.  exit 1 = reproduced."""
import sys
import numpy as np
import pandapower as pp
import pandapower.networks as nw


def dangling(net):
    out = []
    bus = set(net.bus.index)
    for et, cols in (("line", ["from_bus", "to_bus"]), ("trafo", ["hv_bus", "lv_bus"]), ("trafo3w", ["hv_bus", "mv_bus", "lv_bus"]), ("load", ["bus"]),
                     ("sgen", ["bus"]), ("gen", ["bus"]), ("ext_grid", ["bus"]), ("shunt", ["bus"]), ("switch", ["bus"]), ("impedance", ["from_bus", "to_bus"])):
        for c in cols:
            bad = set(net[et][c]) - bus
            if bad:
                out.append(f"{et}.{c} -> non-existing buses {sorted(bad)[:3]}")
    for code, tab in (("l", "line"), ("t", "trafo"), ("t3", "trafo3w"), ("b", "bus")):
        bad = set(net.switch.element[net.switch.et == code]) - set(net[tab].index)
        if bad:
            out.append(f"switch(et={code}).element -> non-existing {tab} {sorted(bad)[:3]}")
    for tab in ("poly_cost", "pwl_cost"):
        for et in set(net[tab].et):
            bad = set(net[tab].element[net[tab].et == et]) - set(net[et].index)
            if bad:
                out.append(f"{tab} -> non-existing {et} {sorted(bad)[:3]}")
    for et in set(net.measurement.element_type) if len(net.measurement) else ():
        bad = set(net.measurement.element[net.measurement.element_type == et]) - set(net[et].index)
        if bad:
            out.append(f"measurement -> non-existing {et} {sorted(bad)[:3]}")
    for gi in net.group.index.unique() if len(net.group) else ():
        rows = net.group.loc[[gi]]
        for _, r in rows.iterrows():
            have = set(net[r.element_type].index) if r.reference_column is None or (isinstance(r.reference_column, float) and np.isnan(r.reference_column)) \
                else set(net[r.element_type][r.reference_column])
            bad = [m for m in r.element_index if m not in have]
            if bad:
                out.append(f"dangling group members in group {gi}: ({r.element_type}, {bad[:3]})")
    for et in ("bus", "line", "trafo", "trafo3w", "load", "sgen", "gen"):
        res = "res_" + et
        if res in net and len(net[res]) and not set(net[res].index) <= set(net[et].index):
            out.append(f"{res} has rows without element")
    return out


def _net():
    net = nw.example_multivoltage()
    for et in ("load", "sgen", "line", "trafo"):
        net[et]["name"] = [f"{et}_{i}" for i in net[et].index]
    pp.create_group(net, ["load", "sgen"], [list(net.load.index[:3]), list(net.sgen.index[:2])], name="by index")
    pp.create_group(net, ["load", "line"], [list(net.load.name[2:5]), list(net.line.name[:2])], name="by name", reference_columns="name")
    t3 = net.trafo3w.index[0]
    pp.create_switch(net, net.trafo3w.hv_bus.at[t3], t3, "t3")
    pp.create_poly_cost(net, net.gen.index[0], "gen", 1.)
    pp.create_poly_cost(net, net.ext_grid.index[0], "ext_grid", 2.)          # same element number as the gen, another element type
    pp.create_pwl_cost(net, net.sgen.index[0], "sgen", [[0., 5., 1.]])
    pp.create_pwl_cost(net, net.load.index[0], "load", [[0., 5., 1.]])
    pp.create_measurement(net, "p", "line", 1., 0.1, net.line.index[0], side="from")
    pp.create_measurement(net, "p", "trafo3w", 1., 0.1, t3, side="hv")
    pp.create_measurement(net, "p", "load", 1., 0.1, net.load.index[5])
    pp.create_measurement(net, "q", "gen", 1., 0.1, net.gen.index[0])
    pp.runpp(net)
    return net


def main_known_res_index():
    """known finding: reindex_elements leaves the result table with the old index"""
    net = _net()
    pp.reindex_elements(net, "line", list(net.line.index + 100))
    bad = [d for d in dangling(net) if d.startswith("res_")]
    for d in bad:
        print("REPRODUCED: reindex_elements(line):", d)
    if not bad:
        print("not reproduced: result table follows the new element index")
    sys.exit(1 if bad else 0)


def main_inner():
    """fuse_buses / drop_inner_branches: the branches between the fused buses go with their group memberships, results and costs; transformers of
    each kind are dropped from their own table"""
    fails = []
    net = pp.create_empty_network()
    b = pp.create_buses(net, 4, 110.)
    pp.create_ext_grid(net, b[0])
    pp.create_line_from_parameters(net, b[0], b[1], 10., 0.06, 0.3, 10., 1.)
    pp.create_line_from_parameters(net, b[2], b[3], 10., 0.06, 0.3, 10., 1.)
    sw = pp.create_switch(net, b[1], b[2], "b", closed=True)
    imp = pp.create_impedance(net, b[1], b[2], 0.01, 0.05, 100.)
    dc = pp.create_dcline(net, b[1], b[2], p_mw=5., loss_percent=1., loss_mw=0.1, vm_from_pu=1., vm_to_pu=1.)
    pp.create_poly_cost(net, dc, "dcline", 1.)
    pp.create_load(net, b[3], 20., 5.)
    pp.create_group(net, ["switch", "impedance", "dcline"], [[sw], [imp], [dc]], name="coupling")
    pp.runpp(net)
    pp.fuse_buses(net, b[1], [b[2]])
    for d in dangling(net):
        fails.append(f"fuse_buses: {d}")
    for res in ("res_switch", "res_impedance", "res_dcline"):
        if res in net and len(net[res]) and not set(net[res].index) <= set(net[res[4:]].index):
            fails.append(f"fuse_buses: {res} has rows without element")
    # a two-winding and a three-winding transformer with the same index
    net = pp.create_empty_network()
    hv = pp.create_bus(net, 110.); mv = pp.create_bus(net, 20.); lv = pp.create_bus(net, 10.); x = pp.create_bus(net, 20.)
    pp.create_ext_grid(net, hv)
    pp.create_transformer_from_parameters(net, hv, x, 25., 110., 20., 0.4, 10., 10., 0.05)
    pp.create_transformer3w_from_parameters(net, hv, mv, lv, 110., 20., 10., 63., 40., 25., 10., 10.5, 11., .3, .32, .34, 30., .1)
    pp.drop_inner_branches(net, [hv, mv, lv])
    if len(net.trafo3w) != 0 or len(net.trafo) != 1:
        fails.append(f"drop_inner_branches of the three buses of trafo3w 0: {len(net.trafo3w)} trafo3w and {len(net.trafo)} trafo left (expected 0 and 1)")
    for f in fails:
        print("REPRODUCED:", f)
    if not fails:
        print("not reproduced: inner branches are dropped with all their references")
    sys.exit(1 if fails else 0)


def main(include_known=False):
    fails = []
    ops = [("drop_elements(load)", lambda n: pp.drop_elements(n, "load", [n.load.index[3]])),
           ("drop_elements_simple(sgen)", lambda n: pp.drop_elements_simple(n, "sgen", [n.sgen.index[0]])),
           ("drop_lines", lambda n: pp.drop_lines(n, [n.line.index[0]])),
           ("drop_trafos(trafo3w)", lambda n: pp.drop_trafos(n, [n.trafo3w.index[0]], table="trafo3w")),
           ("drop_buses", lambda n: pp.drop_buses(n, [n.load.bus.iloc[2]])),
           ("reindex_elements(trafo3w)", lambda n: pp.reindex_elements(n, "trafo3w", [int(n.trafo3w.index[0]) + 50])),
           ("reindex_elements(line)", lambda n: pp.reindex_elements(n, "line", list(n.line.index + 100))),
           ("reindex_elements(gen)", lambda n: pp.reindex_elements(n, "gen", list(n.gen.index + 7))),
           ("reindex_elements(load, part of the loads)", lambda n: pp.reindex_elements(n, "load", lookup={int(n.load.index[5]): 500, int(n.load.index[0]): 501})),
           ("create_continuous_elements_index", lambda n: pp.create_continuous_elements_index(n, start=3)),
           ("select_subnet(buses around the gen, without the ext_grid)", lambda n: pp.select_subnet(
               n, [b for b in n.bus.index if b != n.ext_grid.bus.iloc[0] and b != n.load.bus.at[n.load.index[0]]])),
           ("select_subnet(buses of the ext_grid and the first sgen only)", lambda n: pp.select_subnet(
               n, [n.ext_grid.bus.iloc[0], n.sgen.bus.at[n.sgen.index[0]]])),
           ("drop_inactive_elements", lambda n: (n.bus.__setitem__("in_service", n.bus.index != n.load.bus.iloc[4]), pp.drop_inactive_elements(n))[1]),
           ]
    for name, op in ops:
        net = _net()
        pre = dangling(net)
        if pre:
            print("replay network inconsistent before the operation:", pre)
            sys.exit(3)
        try:
            r = op(net)
            if r is not None and hasattr(r, "bus"):
                net = r                 # operations that return the edited network (select_subnet)
        except Exception as e:
            fails.append(f"{name}: raised {type(e).__name__}: {str(e)[:100]}")
            continue
        for d in dangling(net):
            if d.startswith("res_") and name.startswith("reindex_elements") and not include_known:
                continue        # listed known finding (C22/reindex_elements-leaves-result-table-index), replayed by main_known_res_index
            fails.append(f"{name}: {d}")
    for f in fails:
        print("REPRODUCED:", f)
    if not fails:
        print("not reproduced: no dangling references after the replayed edits")
    sys.exit(1 if fails else 0)


def main_facts():
    """bus edits on a network with FACTS elements (svc, ssc, tcsc), controllers of elements dropped with their bus, zero branches of other
    types than lines replaced by switches"""
    import pandapower.control as ct
    fails = []

    def facts_net():
        net = pp.create_empty_network()
        for i in (10, 20, 30, 40):
            pp.create_bus(net, 110., index=i)
        pp.create_ext_grid(net, 10)
        pp.create_line_from_parameters(net, 10, 20, 10., 0.06, 0.3, 10., 1.); pp.create_line_from_parameters(net, 20, 30, 10., 0.06, 0.3, 10., 1.)
        pp.create_svc(net, 30, x_l_ohm=1., x_cvar_ohm=-10., set_vm_pu=1., thyristor_firing_angle_degree=90.)
        pp.create_tcsc(net, 30, 40, x_l_ohm=1., x_cvar_ohm=-10., set_p_to_mw=-5., thyristor_firing_angle_degree=140.)
        pp.create_ssc(net, 40, r_ohm=0., x_ohm=5., set_vm_pu=1.0)
        pp.create_load(net, 40, 5., 1.)
        return net

    def facts_dangling(net):
        out = []
        bus = set(net.bus.index)
        for et, cols in (("svc", ["bus"]), ("ssc", ["bus"]), ("tcsc", ["from_bus", "to_bus"])):
            for c in cols:
                bad = set(net[et][c]) - bus
                if bad:
                    out.append(f"{et}.{c} -> non-existing buses {sorted(bad)}")
        return out
    for name, op in (("create_continuous_bus_index", lambda n: pp.create_continuous_bus_index(n)),
                     ("reindex_buses({30: 31, 40: 41})", lambda n: pp.reindex_buses(n, {30: 31, 40: 41})),
                     ("drop_buses([40])", lambda n: pp.drop_buses(n, [40])),
                     ("fuse_buses(20, [30])", lambda n: pp.fuse_buses(n, 20, [30])),
                     ("select_subnet([10, 20, 30])", lambda n: pp.select_subnet(n, [10, 20, 30], keep_everything_else=True))):
        net = facts_net()
        try:
            r = op(net)
            if r is not None and hasattr(r, "bus"):
                net = r
        except Exception as e:
            fails.append(f"network with svc / ssc / tcsc, {name}: raised {type(e).__name__}: {str(e)[:100]}")
            continue
        for d in facts_dangling(net):
            fails.append(f"network with svc / ssc / tcsc, {name}: {d}")
    # controllers of the elements that go with a dropped bus
    net = pp.create_empty_network()
    pp.create_buses(net, 4, 20.)
    pp.create_ext_grid(net, 0)
    for f, t in ((0, 1), (1, 2), (2, 3)):
        pp.create_line_from_parameters(net, f, t, 1., 0.1, 0.1, 10., 0.4)
    pp.create_sgen(net, 3, 1.); pp.create_sgen(net, 2, 1.)
    ct.ConstControl(net, "sgen", "p_mw", element_index=[0], profile_name=None, data_source=None)
    pp.drop_buses(net, [3])
    for c in net.controller.object:
        tgt = [i for i in np.atleast_1d(getattr(c, "element_index", [])) if i not in net[getattr(c, "element", "sgen")].index]
        if tgt:
            fails.append(f"drop_buses([3]) drops sgen 0 with its bus; a ConstControl still targets sgen {tgt} (sgen index now {list(net.sgen.index)})")
    # replace_zero_branches_with_switches on impedances
    net = pp.create_empty_network()
    pp.create_buses(net, 3, 20.)
    pp.create_ext_grid(net, 0)
    pp.create_line_from_parameters(net, 0, 1, 1., 0.1, 0.1, 10., 0.4)
    pp.create_impedance(net, 1, 2, 1e-7, 1e-7, 10.); pp.create_impedance(net, 0, 2, 0.01, 0.02, 10.)
    pp.create_load(net, 2, 1.)
    pp.create_group(net, ["impedance"], [[0]], name="g")
    pp.runpp(net)
    pp.replace_zero_branches_with_switches(net, elements=("impedance",), min_rft_pu=1e-6, min_xft_pu=1e-6, min_rtf_pu=1e-6, min_xtf_pu=1e-6,
                                           drop_affected=True)
    if not set(net.res_impedance.index) <= set(net.impedance.index):
        fails.append(f"replace_zero_branches_with_switches(drop_affected=True): impedance index {list(net.impedance.index)}, res_impedance index "
                     f"{list(net.res_impedance.index)}")
    for d in dangling(net):
        fails.append(f"replace_zero_branches_with_switches(drop_affected=True): {d}")
    for f in fails:
        print("REPRODUCED:", f)
    if not fails:
        print("not reproduced: no dangling references after the replayed edits of networks with FACTS elements / controllers / zero impedances")
    sys.exit(1 if fails else 0)


if __name__ == "__main__":
    main()
