"""Native replay for C32: characteristic objects at their support points, monotone range, and after evaluation + JSON round trip.
exit 1 = violation reproduced."""
import sys
import numpy as np
import pandapower as pp
from pandapower.control.util.characteristic import Characteristic, SplineCharacteristic, LogSplineCharacteristic


def main():
    fails = []
    rng = np.random.default_rng(7)
    cases = []
    for n in (2, 3, 5, 9):
        x = np.cumsum(rng.uniform(0.2, 1.5, n)) + 0.1
        cases.append((x, np.cumsum(rng.uniform(0.05, 1.0, n)) + 0.2, True))
        cases.append((x, rng.uniform(0.5, 3.0, n), False))
    for x, y, mono in cases:
        makers = [("Characteristic", lambda net: Characteristic(net, x, y), len(x) >= 2),
                  ("Spline-linear", lambda net: SplineCharacteristic(net, x, y, kind="linear", fill_value="extrapolate"), len(x) >= 2),
                  ("Spline-default", lambda net: SplineCharacteristic(net, x, y), len(x) >= 3),
                  ("Spline-cubic", lambda net: SplineCharacteristic(net, x, y, kind="cubic"), len(x) >= 4),
                  ("Spline-Pchip", lambda net: SplineCharacteristic(net, x, y, interpolator_kind="Pchip"), len(x) >= 2),
                  ("LogSpline-linear", lambda net: LogSplineCharacteristic(net, x, y, kind="linear"), len(x) >= 2)]
        for name, mk, ok in makers:
            if not ok:
                continue
            net = pp.create_empty_network()
            c = mk(net)
            tag = f"{name}[n={len(x)},{'monotone' if mono else 'arbitrary'}]"
            got = np.array([float(c(v)) for v in x])
            if not np.allclose(got, y, rtol=1e-9, atol=1e-9):
                fails.append(f"{tag}: value at a support point differs from the given y (max dev {np.max(np.abs(got - y)):.3e})")
            grid = np.linspace(x[0], x[-1], 101)
            before = np.array([float(c(v)) for v in grid])
            if mono and name in ("Characteristic", "Spline-linear", "Spline-Pchip", "LogSpline-linear"):
                k = np.clip(np.searchsorted(x, grid, side="right") - 1, 0, len(x) - 2)
                lo, hi = np.minimum(y[k], y[k + 1]), np.maximum(y[k], y[k + 1])
                if np.any(before < lo - 1e-9) or np.any(before > hi + 1e-9):
                    fails.append(f"{tag}: value leaves the range of the neighbouring support values")
            # serialisation after the object has been evaluated
            s = pp.to_json(net)
            net2 = pp.from_json_string(s)
            tab = "characteristic"
            c2 = net2[tab].object.at[c.index]
            after = np.array([float(c2(v)) for v in grid])
            if not np.allclose(before, after, rtol=1e-9, atol=1e-9):
                fails.append(f"{tag}: changed by JSON round trip after it had been evaluated (max deviation {np.max(np.abs(before - after)):.4f})")
            got2 = np.array([float(c2(v)) for v in x])
            if not np.allclose(got2, y, rtol=1e-9, atol=1e-9):
                fails.append(f"{tag}: restored object misses its support points")
    for f in fails:
        print("REPRODUCED:", f)
    if not fails:
        print("not reproduced: characteristics pass through their support points and survive serialisation")
    sys.exit(1 if fails else 0)


if __name__ == "__main__":
    main()
