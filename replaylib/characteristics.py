"""Native replay for C32: characteristic objects at their support points, monotone range, and after evaluation + JSON round trip.
exit 1 = violation reproduced."""
import sys
import numpy as np
import pandapower as pp
from pandapower.control.util.characteristic import Characteristic, SplineCharacteristic, LogSplineCharacteristic


def main():
    fails = []
    rng = np.random.default_rng(7)
    cases = []
    for n in (2, 3, 5, 9):
        x = np.cumsum(rng.uniform(0.2, 1.5, n)) + 0.1
        cases.append((x, np.cumsum(rng.uniform(0.05, 1.0, n)) + 0.2, True))
        cases.append((x, rng.uniform(0.5, 3.0, n), False))
    for x, y, mono in cases:
        makers = [("Characteristic", lambda net: Characteristic(net, x, y), len(x) >= 2),
                  ("Spline-linear", lambda net: SplineCharacteristic(net, x, y, kind="linear", fill_value="extrapolate"), len(x) >= 2),
                  ("Spline-default", lambda net: SplineCharacteristic(net, x, y), len(x) >= 3),
                  ("Spline-cubic", lambda net: SplineCharacteristic(net, x, y, kind="cubic"), len(x) >= 4),
                  ("Spline-Pchip", lambda net: SplineCharacteristic(net, x, y, interpolator_kind="Pchip"), len(x) >= 2),
                  ("LogSpline-linear", lambda net: LogSplineCharacteristic(net, x, y, kind="linear"), len(x) >= 2)]
        for name, mk, ok in makers:
            if not ok:
                continue
            net = pp.create_empty_network()
            c = mk(net)
            tag = f"{name}[n={len(x)},{'monotone' if mono else 'arbitrary'}]"
            got = np.array([float(c(v)) for v in x])
            if not np.allclose(got, y, rtol=1e-9, atol=1e-9):
                fails.append(f"{tag}: value at a support point differs from the given y (max dev {np.max(np.abs(got - y)):.3e})")
            grid = np.linspace(x[0], x[-1], 101)
            before = np.array([float(c(v)) for v in grid])
            if mono and name in ("Characteristic", "Spline-linear", "Spline-Pchip", "LogSpline-linear"):
                k = np.clip(np.searchsorted(x, grid, side="right") - 1, 0, len(x) - 2)
                lo, hi = np.minimum(y[k], y[k + 1]), np.maximum(y[k], y[k + 1])
                if np.any(before < lo - 1e-9) or np.any(before > hi + 1e-9):
                    fails.append(f"{tag}: value leaves the range of the neighbouring support values")
            # serialisation after the object has been evaluated
            s = pp.to_json(net)
            net2 = pp.from_json_string(s)
            tab = "characteristic"
            c2 = net2[tab].object.at[c.index]
            after = np.array([float(c2(v)) for v in grid])
            if not np.allclose(before, after, rtol=1e-9, atol=1e-9):
                fails.append(f"{tag}: changed by JSON round trip after it had been evaluated (max deviation {np.max(np.abs(before - after)):.4f})")
            got2 = np.array([float(c2(v)) for v in x])
            if not np.allclose(got2, y, rtol=1e-9, atol=1e-9):
                fails.append(f"{tag}: restored object misses its support points")
    # support points given in another order than increasing x (scipy's interp1d sorts them unless it is told not to)
    xu, yu = np.array([2., 0.5, 3., 1., 4.]), np.array([5., 1., 10., 2., 12.])
    for name, mk in (("Spline-linear", lambda net: SplineCharacteristic(net, xu, yu, kind="linear")),
                     ("Spline-default", lambda net: SplineCharacteristic(net, xu, yu)),
                     ("Spline-cubic", lambda net: SplineCharacteristic(net, xu, yu, kind="cubic")),
                     ("LogSpline-linear", lambda net: LogSplineCharacteristic(net, xu, yu, kind="linear"))):
        c = mk(pp.create_empty_network())
        try:
            got = np.array([float(c(v)) for v in xu])
        except ValueError as e:
            fails.append(f"{name}[unsorted x]: evaluation raised ValueError: {e}")
            continue
        if not np.allclose(got, yu, rtol=1e-9, atol=1e-9):
            fails.append(f"{name}[unsorted x]: value at a support point differs from the given y (max dev {np.max(np.abs(got - yu)):.3e})")
    for f in fails:
        print("REPRODUCED:", f)
    if not fails:
        print("not reproduced: characteristics pass through their support points and survive serialisation")
    sys.exit(1 if fails else 0)


if __name__ == "__main__":
    main()


def main_more():
    """falling characteristics built from a gradient; equality with the serialised copy after an evaluation; support points replaced after
    an evaluation"""
    fails = []
    # (1) from_gradient: the object passes through its own support points, for rising and falling gradients
    for zc, grad, y_min, y_max in ((-95., 100., 10., 20.), (115., -100., 10., 20.), (3., -0.5, 1., 2.)):
        net = pp.create_empty_network()
        c = Characteristic.from_gradient(net, zc, grad, y_min, y_max)
        for xv, yv in zip(c.x_vals, c.y_vals):
            if not np.isclose(float(c(xv)), yv, atol=1e-9):
                fails.append(f"Characteristic.from_gradient(zero_crossing={zc}, gradient={grad}, y_min={y_min}, y_max={y_max}): support point "
                             f"({xv:.4f}, {yv}) but c({xv:.4f}) = {float(c(xv)):.4f}")
                break
        xm = (0.5 * (y_min + y_max) - zc) / grad
        if not np.isclose(float(c(xm)), 0.5 * (y_min + y_max), atol=1e-9):
            fails.append(f"Characteristic.from_gradient(zero_crossing={zc}, gradient={grad}, ...): value at the middle of the ramp is "
                         f"{float(c(xm)):.4f}, the line gives {0.5 * (y_min + y_max):.4f}")
    x, y = np.array([1., 2., 3., 5., 8.]), np.array([1., 3., 3.5, 8., 20.])
    makers = [("Characteristic", lambda net: Characteristic(net, x, y)), ("Spline-default", lambda net: SplineCharacteristic(net, x, y)),
              ("Spline-Pchip", lambda net: SplineCharacteristic(net, x, y, interpolator_kind="Pchip")),
              ("LogSpline-linear", lambda net: LogSplineCharacteristic(net, x, y, kind="linear"))]
    for name, mk in makers:
        # (2) an evaluated object equals its serialised copy (and an identical object that has not been evaluated)
        net = pp.create_empty_network()
        c = mk(net)
        twin = mk(pp.create_empty_network())
        c(3.0)
        back = pp.from_json_string(pp.to_json(net))
        c2 = back.characteristic.object.at[c.index]
        if not (c == c2):
            fails.append(f"{name}: after one evaluation the object no longer equals its JSON round trip (same data, same values)")
        if not (c == twin):
            fails.append(f"{name}: after one evaluation the object no longer equals an identical object that has not been evaluated")
        # (3) support points replaced after an evaluation: the object passes through the new points
        c = mk(pp.create_empty_network())
        c(3.0)
        c.y_vals = 2 * y
        got = np.array([float(c(v)) for v in x])
        if not np.allclose(got, 2 * y, atol=1e-9):
            fails.append(f"{name}: y_vals replaced by {list(2 * y)} after an evaluation, the object still returns {np.round(got, 4).tolist()} at its "
                         f"x points")
    for f in fails:
        print("REPRODUCED:", f)
    if not fails:
        print("not reproduced: characteristics pass through their (current) support points and equal their serialised copies")
    sys.exit(1 if fails else 0)
