"""Native replay for C21: to_ppc -> from_ppc keeps the power flow results.  exit 1 = reproduced."""
import sys
import numpy as np
import pandapower as pp
from pandapower.converter.pypower.to_ppc import to_ppc
from pandapower.converter.pypower.from_ppc import from_ppc


def _net(shifter):
    net = pp.create_empty_network()
    hv = pp.create_bus(net, 110.); b = pp.create_buses(net, 4, 20.)
    pp.create_ext_grid(net, hv, vm_pu=1.02)
    pp.create_transformer_from_parameters(net, hv, b[0], sn_mva=40., vn_hv_kv=110., vn_lv_kv=20., vkr_percent=0.4, vk_percent=12., pfe_kw=0.,
                                          i0_percent=0., shift_degree=0., tap_side="hv", tap_neutral=0, tap_min=-9, tap_max=9, tap_step_percent=1.5,
                                          tap_pos=2, tap_changer_type="Ratio")
    for f, t, L in ((0, 1, 4.), (1, 2, 3.), (2, 3, 5.)):
        pp.create_line_from_parameters(net, b[f], b[t], L, 0.16, 0.12, 210., 0.4)
    if shifter:
        # phase shifter between two buses of one voltage level, closing a mesh
        pp.create_transformer_from_parameters(net, b[3], b[0], sn_mva=25., vn_hv_kv=20., vn_lv_kv=20., vkr_percent=0.3, vk_percent=8., pfe_kw=0.,
                                              i0_percent=0., shift_degree=6.)
    else:
        pp.create_line_from_parameters(net, b[3], b[0], 6., 0.16, 0.12, 210., 0.4)
    pp.create_impedance(net, b[1], b[3], 0.02, 0.06, 10.)
    pp.create_load(net, b[2], 9., 3.); pp.create_load(net, b[3], 6., 1.5); pp.create_sgen(net, b[1], 2., 0.3)
    return net


def main():
    fails = []
    for shifter in (False, True):
        net = _net(shifter)
        pp.runpp(net, calculate_voltage_angles=True, trafo_model="pi")
        ppc = to_ppc(net, calculate_voltage_angles=True, trafo_model="pi", init="flat")
        net2 = from_ppc(ppc, f_hz=net.f_hz)
        pp.runpp(net2, calculate_voltage_angles=True, trafo_model="pi")
        tag = "with a phase shifter inside one voltage level" if shifter else "lines only"
        vm1, vm2 = net.res_bus.vm_pu.values, net2.res_bus.vm_pu.values
        if len(vm1) != len(vm2) or np.max(np.abs(vm1 - vm2)) > 1e-6:
            fails.append(f"{tag}: bus voltage magnitudes differ by up to {np.max(np.abs(vm1 - vm2)) if len(vm1) == len(vm2) else float('nan'):.2e} pu")
        va1, va2 = net.res_bus.va_degree.values, net2.res_bus.va_degree.values
        if len(va1) == len(va2) and np.max(np.abs(va1 - va2)) > 1e-4:
            fails.append(f"{tag}: bus voltage angles differ by up to {np.max(np.abs(va1 - va2)):.3f} degree")
        if abs(net.res_ext_grid.p_mw.sum() - net2.res_ext_grid.p_mw.sum()) > 1e-5:
            fails.append(f"{tag}: slack power differs ({net.res_ext_grid.p_mw.sum():.5f} vs {net2.res_ext_grid.p_mw.sum():.5f} MW)")
    for f in fails:
        print("REPRODUCED:", f)
    if not fails:
        print("not reproduced: the ppc round trip keeps the power flow results")
    sys.exit(1 if fails else 0)


def main_costs():
    """network with cost data: to_ppc (OPF mode) appends the controllable sgens / loads as further gen rows of their buses"""
    fails = []
    net = pp.create_empty_network()
    b = pp.create_buses(net, 4, 110.)
    pp.create_ext_grid(net, b[0], vm_pu=1.03, min_p_mw=-200, max_p_mw=200, min_q_mvar=-200, max_q_mvar=200)
    for f, t in ((0, 1), (1, 2), (2, 3), (3, 0)):
        pp.create_line_from_parameters(net, b[f], b[t], 20., 0.06, 0.3, 10., 1.)
    pp.create_gen(net, b[2], p_mw=30., vm_pu=1.025, controllable=True, min_p_mw=0, max_p_mw=60, min_q_mvar=-50, max_q_mvar=50)
    pp.create_sgen(net, b[2], 10., 2., controllable=True, min_p_mw=0, max_p_mw=15, min_q_mvar=-5, max_q_mvar=5)
    pp.create_sgen(net, b[0], 5., 1., controllable=True, min_p_mw=0, max_p_mw=8, min_q_mvar=-3, max_q_mvar=3)
    pp.create_load(net, b[1], 50., 10.); pp.create_load(net, b[3], 40., 8.)
    pp.create_poly_cost(net, 0, "ext_grid", cp1_eur_per_mw=10.)
    pp.create_poly_cost(net, 0, "gen", cp1_eur_per_mw=8.)
    pp.create_poly_cost(net, 0, "sgen", cp1_eur_per_mw=5.)
    pp.create_poly_cost(net, 1, "sgen", cp1_eur_per_mw=5.)
    pp.runpp(net)
    ppc = to_ppc(net, init="flat")
    net2 = from_ppc(ppc, f_hz=net.f_hz)
    pp.runpp(net2)
    vm1, vm2 = net.res_bus.vm_pu.values, net2.res_bus.vm_pu.values
    if len(vm1) != len(vm2) or np.max(np.abs(vm1 - vm2)) > 1e-6:
        fails.append(f"net with costs: bus voltage magnitudes differ by up to {np.max(np.abs(vm1 - vm2)) if len(vm1) == len(vm2) else float('nan'):.2e} pu "
                     f"(voltage set points after the round trip: ext_grid {net2.ext_grid.vm_pu.values}, gen {net2.gen.vm_pu.values})")
    if abs(net.res_ext_grid.q_mvar.sum() - net2.res_ext_grid.q_mvar.sum()) > 1e-4:
        fails.append(f"net with costs: slack reactive power differs ({net.res_ext_grid.q_mvar.sum():.4f} vs {net2.res_ext_grid.q_mvar.sum():.4f} Mvar)")
    for f in fails:
        print("REPRODUCED:", f)
    if not fails:
        print("not reproduced: the ppc round trip of a network with cost data keeps the power flow results")
    sys.exit(1 if fails else 0)


if __name__ == "__main__":
    main()


def _cmp(tag, net, net2, fails, kw):
    pp.runpp(net, **kw)
    try:
        pp.runpp(net2, **kw)
    except Exception as e:
        fails.append(f"{tag}: the power flow of the round trip network fails ({type(e).__name__}); original slack power "
                     f"{net.res_ext_grid.p_mw.sum():.5f} MW")
        return
    p1, p2 = net.res_ext_grid.p_mw.sum(), net2.res_ext_grid.p_mw.sum()
    v1, v2 = np.sort(net.res_bus.vm_pu.values), np.sort(net2.res_bus.vm_pu.values)
    if abs(p1 - p2) > 1e-5 or len(v1) != len(v2) or np.max(np.abs(v1 - v2)) > 1e-6:
        fails.append(f"{tag}: slack power {p1:.5f} -> {p2:.5f} MW, max |dVm| = {np.max(np.abs(v1 - v2)) if len(v1) == len(v2) else float('nan'):.2e} pu")


def main_more():
    """lines with a shunt conductance, the MATPOWER file round trip of a transformer with iron losses, a network with cost data (to_ppc in OPF
    mode writes RATE_A = 0 for branches without a loading limit)"""
    import os
    import shutil
    import tempfile
    import logging
    logging.disable(logging.CRITICAL)
    from pandapower.converter.matpower import to_mpc, from_mpc
    fails = []
    kw = dict(calculate_voltage_angles=True, trafo_model="pi")

    def base(g_us=0., std=False, cost=False):
        net = pp.create_empty_network()
        b = pp.create_buses(net, 2, 110.); c = pp.create_buses(net, 2, 20.)
        pp.create_ext_grid(net, b[0], vm_pu=1.02, min_p_mw=-100, max_p_mw=100, min_q_mvar=-100, max_q_mvar=100)
        pp.create_line_from_parameters(net, b[0], b[1], 20, 0.06, 0.14, 10, 0.5, g_us_per_km=g_us)
        tr = dict(sn_mva=25, vn_hv_kv=110, vn_lv_kv=20, vkr_percent=1., vk_percent=12., pfe_kw=14. if std else 0., i0_percent=0.07 if std else 0.,
                  tap_neutral=0, tap_step_percent=1.5, tap_side="hv", tap_min=-9, tap_max=9, tap_changer_type="Ratio")
        pp.create_transformer_from_parameters(net, b[1], c[0], tap_pos=0 if cost else 2, **tr)
        pp.create_transformer_from_parameters(net, b[1], c[0], tap_pos=2, **tr)
        pp.create_line_from_parameters(net, c[0], c[1], 3, 0.2, 0.12, 200, 0.3, g_us_per_km=g_us / 4)
        pp.create_load(net, c[1], p_mw=10, q_mvar=2)
        if cost:
            pp.create_poly_cost(net, 0, "ext_grid", cp1_eur_per_mw=1.)
        return net
    # (1) line conductance through the ppc dict
    net = base(g_us=200.)
    _cmp("lines with g_us_per_km = 200 / 50 through to_ppc / from_ppc", net, from_ppc(to_ppc(net, init="flat", **kw), f_hz=net.f_hz), fails, kw)
    # (2) MATPOWER file
    d = tempfile.mkdtemp()
    try:
        for tag, net in (("transformers with pfe_kw = 14 through the MATPOWER file", base(std=True)),
                         ("lines with g_us_per_km = 200 / 50 through the MATPOWER file", base(g_us=200.))):
            fn = os.path.join(d, "case.mat")
            to_mpc(net, fn, init="flat", **kw)
            _cmp(tag, net, from_mpc(fn, f_hz=net.f_hz), fails, kw)
    finally:
        shutil.rmtree(d, ignore_errors=True)
    # (3) cost data: OPF mode of to_ppc
    net = base(cost=True)
    try:
        net2 = from_ppc(to_ppc(net, init="flat", **kw), f_hz=net.f_hz)
        _cmp("network with cost data (RATE_A = 0 for the transformer at its neutral tap)", net, net2, fails, kw)
    except Exception as e:
        fails.append(f"network with cost data: from_ppc(to_ppc(net)) raises {type(e).__name__}: {str(e)[:80]}")
    for f in fails:
        print("REPRODUCED:", f)
    if not fails:
        print("not reproduced: the round trips keep the power flow results")
    sys.exit(1 if fails else 0)
