"""Native replay for C29: sweeps of the real protection functions."""
import sys
import numpy as np
import pandas as pd
import pandapower as pp
from pandapower.protection.protection_devices.fuse import Fuse
from pandapower.protection.protection_devices.ocrelay import OCRelay


def _net():
    net = pp.create_empty_network()
    b1 = pp.create_bus(net, 20.); b2 = pp.create_bus(net, 20.)
    pp.create_ext_grid(net, b1)
    l = pp.create_line(net, b1, b2, 1., "NAYY 4x50 SE")
    sw = pp.create_switch(net, b1, l, "l")
    net["res_switch"] = pd.DataFrame({"i_ka": [0.0]}, index=[sw])
    net["res_switch_sc"] = pd.DataFrame({"ikss_ka": [0.0]}, index=[sw])
    return net, sw


def fuse_main():
    fails = []
    base = pp.create_empty_network()
    names = list(base.std_types.get("fuse", {}).keys())
    for name in names:
        data = base.std_types["fuse"][name]
        for cs in (0, 1):
            net, sw = _net()
            try:
                f = Fuse(net, sw, fuse_type=name, curve_select=cs)
            except ValueError:
                continue
            c = net.characteristic.at[f.characteristic_index, "object"]
            xs = 10 ** np.asarray(c.x_vals, dtype=float)
            if not (np.isclose(f.i_start_a, xs.min()) and np.isclose(f.i_stop_a, xs.max())):
                fails.append(f"{name} curve_select={cs}: i_start_a={f.i_start_a} i_stop_a={f.i_stop_a} but its characteristic spans "
                             f"[{xs.min():.6g}, {xs.max():.6g}] A")
                continue
            # sweep: trip iff current >= start, time non-increasing
            last = None
            for i_a in np.concatenate([np.linspace(0.2 * xs.min(), 1.2 * xs.max(), 60), xs]):
                pass
            grid = np.sort(np.concatenate([np.linspace(0.2 * xs.min(), 1.2 * xs.max(), 80), xs]))
            for scen, tab, col in (("pp", "res_switch", "i_ka"), ("sc", "res_switch_sc", "ikss_ka")):
                last = None
                for i_a in grid:
                    net[tab].at[sw, col] = i_a / 1000.
                    r = f.protection_function(net, scen)
                    if r["activation_parameter_value"] != net[tab].at[sw, col]:
                        fails.append(f"{name}: activation value {r['activation_parameter_value']} != {net[tab].at[sw, col]}")
                    if bool(r["trip_melt"]) != bool(i_a >= f.i_start_a - 1e-9):
                        fails.append(f"{name} cs={cs}: at {i_a:.4g} A trip={r['trip_melt']} but start={f.i_start_a:.4g}")
                        break
                    t = r["trip_melt_time_s"]
                    if last is not None and t > last * (1 + 1e-6) + 1e-12:
                        fails.append(f"{name} cs={cs} {scen}: melting time increases with current ({last:.6g} s -> {t:.6g} s at {i_a:.5g} A)")
                        break
                    last = t
            if fails:
                break
        if fails:
            break
    if fails:
        print("VIOLATION REPRODUCED:", fails[0])
        sys.exit(1)
    print("not reproduced (%d fuse types)" % len(names))
    sys.exit(0)


def fuse_reparameterised():
    """history: a fuse is evaluated, then given new (monotone) characteristic data, then evaluated again: the melting time follows the new data
    and is non-increasing in the current"""
    fails = []
    net, sw = _net()
    f = Fuse(net, sw, fuse_type="none", rated_i_a=100)
    x1, t1 = [150., 250., 430., 900., 1250.], [5400., 400., 20., 1., 0.8]
    x2, t2 = [400., 750., 1453., 3025., 4315., 7600.], [4800., 120., 7., 0.2, 0.04, 0.004]
    f.create_characteristic(net, x1, t1)
    net.res_switch_sc.at[sw, "ikss_ka"] = 0.6
    f.protection_function(net, "sc")
    f.create_characteristic(net, x2, t2)
    last = None
    for i_a in np.sort(np.concatenate([np.linspace(300., 8000., 60), x2])):
        net.res_switch_sc.at[sw, "ikss_ka"] = i_a / 1000.
        r = f.protection_function(net, "sc")
        if bool(r["trip_melt"]) != bool(i_a >= min(x2) - 1e-9):
            fails.append(f"after re-parameterisation: at {i_a:.4g} A trip={r['trip_melt']} but the new curve starts at {min(x2)} A")
            break
        if not r["trip_melt"]:
            continue
        t = r["trip_melt_time_s"]
        if last is not None and t > last * (1 + 1e-6) + 1e-12:
            fails.append(f"after re-parameterisation: melting time increases with current ({last:.6g} s -> {t:.6g} s at {i_a:.5g} A)")
            break
        last = t
    for x, t_ in zip(x2, t2):
        net.res_switch_sc.at[sw, "ikss_ka"] = x / 1000.
        got = f.protection_function(net, "sc")["trip_melt_time_s"]
        if not np.isclose(got, t_, rtol=1e-6):
            fails.append(f"after re-parameterisation: melting time at the data point {x} A is {got:.6g} s, the new data say {t_} s")
            break
    for m in fails:
        print("REPRODUCED:", m)
    if not fails:
        print("not reproduced: a re-parameterised fuse follows its new characteristic")
    sys.exit(1 if fails else 0)


def relay_main(rtype, curve, settings=None):
    net, sw = _net()
    r = OCRelay.__new__(OCRelay)
    s = dict(I_s=0.2, I_g=0.5, I_gg=1.5, t_g=0.8, t_gg=0.1, t_grade=0.05, tms=1.0)
    s.update(settings or {})
    r.switch_index, r.oc_relay_type, r.curve_type, r.tripped, r.activation_parameter = sw, rtype, curve, False, "i_ka"
    for k, v in s.items():
        setattr(r, k, v)
    if rtype != "DTOC":
        r._select_k_alpha()
        if rtype == "IDTOC":
            # graded: t_g not above the inverse time at I_g
            t_at = (r.tms * r.k) / (((r.I_g / r.I_s) ** r.alpha) - 1) + r.t_grade
            r.t_g = min(r.t_g, t_at)
            r.t_gg = min(r.t_gg, r.t_g)
    pick = r.I_g if rtype == "DTOC" else r.I_s
    fails = []
    for scen, tab, col in (("pp", "res_switch", "i_ka"), ("sc", "res_switch_sc", "ikss_ka")):
        last = None
        for i in np.sort(np.concatenate([np.linspace(0.01, 3., 300), [r.I_s, r.I_g, r.I_gg]])):
            net[tab].at[sw, col] = i
            res = r.protection_function(net, scen)
            if res["activation_parameter_value"] != i:
                fails.append("activation value differs")
            if bool(res["trip_melt"]) != bool(i > pick):
                fails.append(f"{rtype}/{curve}/{scen}: i={i:.4f} trip={res['trip_melt']} pick-up={pick}")
                break
            t = res["trip_melt_time_s"]
            if last is not None and t > last * (1 + 1e-9) + 1e-12:
                fails.append(f"{rtype}/{curve}/{scen}: trip time increases with current ({last:.6g} -> {t:.6g} at i={i:.4f})")
                break
            last = t
    if fails:
        print("VIOLATION REPRODUCED:", fails[0])
        sys.exit(1)
    print("not reproduced")
    sys.exit(0)
