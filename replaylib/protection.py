"""Native replay for C29: sweeps of the real protection functions."""
import sys
import numpy as np
import pandas as pd
import pandapower as pp
from pandapower.protection.protection_devices.fuse import Fuse
from pandapower.protection.protection_devices.ocrelay import OCRelay


def _net():
    net = pp.create_empty_network()
    b1 = pp.create_bus(net, 20.); b2 = pp.create_bus(net, 20.)
    pp.create_ext_grid(net, b1)
    l = pp.create_line(net, b1, b2, 1., "NAYY 4x50 SE")
    sw = pp.create_switch(net, b1, l, "l")
    net["res_switch"] = pd.DataFrame({"i_ka": [0.0]}, index=[sw])
    net["res_switch_sc"] = pd.DataFrame({"ikss_ka": [0.0]}, index=[sw])
    return net, sw


def fuse_main():
    fails = []
    base = pp.create_empty_network()
    names = list(base.std_types.get("fuse", {}).keys())
    for name in names:
        data = base.std_types["fuse"][name]
        for cs in (0, 1):
            net, sw = _net()
            try:
                f = Fuse(net, sw, fuse_type=name, curve_select=cs)
            except ValueError:
                continue
            c = net.characteristic.at[f.characteristic_index, "object"]
            xs = 10 ** np.asarray(c.x_vals, dtype=float)
            if not (np.isclose(f.i_start_a, xs.min()) and np.isclose(f.i_stop_a, xs.max())):
                fails.append(f"{name} curve_select={cs}: i_start_a={f.i_start_a} i_stop_a={f.i_stop_a} but its characteristic spans "
                             f"[{xs.min():.6g}, {xs.max():.6g}] A")
                continue
            # sweep: trip iff current >= start, time non-increasing
            last = None
            for i_a in np.concatenate([np.linspace(0.2 * xs.min(), 1.2 * xs.max(), 60), xs]):
                pass
            grid = np.sort(np.concatenate([np.linspace(0.2 * xs.min(), 1.2 * xs.max(), 80), xs]))
            for scen, tab, col in (("pp", "res_switch", "i_ka"), ("sc", "res_switch_sc", "ikss_ka")):
                last = None
                for i_a in grid:
                    net[tab].at[sw, col] = i_a / 1000.
                    r = f.protection_function(net, scen)
                    if r["activation_parameter_value"] != net[tab].at[sw, col]:
                        fails.append(f"{name}: activation value {r['activation_parameter_value']} != {net[tab].at[sw, col]}")
                    if bool(r["trip_melt"]) != bool(i_a >= f.i_start_a - 1e-9):
                        fails.append(f"{name} cs={cs}: at {i_a:.4g} A trip={r['trip_melt']} but start={f.i_start_a:.4g}")
                        break
                    t = r["trip_melt_time_s"]
                    if last is not None and t > last * (1 + 1e-6) + 1e-12:
                        fails.append(f"{name} cs={cs} {scen}: melting time increases with current ({last:.6g} s -> {t:.6g} s at {i_a:.5g} A)")
                        break
                    last = t
            if fails:
                break
        if fails:
            break
    if fails:
        print("VIOLATION REPRODUCED:", fails[0])
        sys.exit(1)
    print("not reproduced (%d fuse types)" % len(names))
    sys.exit(0)


def fuse_reparameterised():
    """history: a fuse is evaluated, then given new (monotone) characteristic data, then evaluated again: the melting time follows the new data
    and is non-increasing in the current"""
    fails = []
    net, sw = _net()
    f = Fuse(net, sw, fuse_type="none", rated_i_a=100)
    x1, t1 = [150., 250., 430., 900., 1250.], [5400., 400., 20., 1., 0.8]
    x2, t2 = [400., 750., 1453., 3025., 4315., 7600.], [4800., 120., 7., 0.2, 0.04, 0.004]
    f.create_characteristic(net, x1, t1)
    net.res_switch_sc.at[sw, "ikss_ka"] = 0.6
    f.protection_function(net, "sc")
    f.create_characteristic(net, x2, t2)
    last = None
    for i_a in np.sort(np.concatenate([np.linspace(300., 8000., 60), x2])):
        net.res_switch_sc.at[sw, "ikss_ka"] = i_a / 1000.
        r = f.protection_function(net, "sc")
        if bool(r["trip_melt"]) != bool(i_a >= min(x2) - 1e-9):
            fails.append(f"after re-parameterisation: at {i_a:.4g} A trip={r['trip_melt']} but the new curve starts at {min(x2)} A")
            break
        if not r["trip_melt"]:
            continue
        t = r["trip_melt_time_s"]
        if last is not None and t > last * (1 + 1e-6) + 1e-12:
            fails.append(f"after re-parameterisation: melting time increases with current ({last:.6g} s -> {t:.6g} s at {i_a:.5g} A)")
            break
        last = t
    for x, t_ in zip(x2, t2):
        net.res_switch_sc.at[sw, "ikss_ka"] = x / 1000.
        got = f.protection_function(net, "sc")["trip_melt_time_s"]
        if not np.isclose(got, t_, rtol=1e-6):
            fails.append(f"after re-parameterisation: melting time at the data point {x} A is {got:.6g} s, the new data say {t_} s")
            break
    for m in fails:
        print("REPRODUCED:", m)
    if not fails:
        print("not reproduced: a re-parameterised fuse follows its new characteristic")
    sys.exit(1 if fails else 0)


def relay_main(rtype, curve, settings=None):
    net, sw = _net()
    r = OCRelay.__new__(OCRelay)
    s = dict(I_s=0.2, I_g=0.5, I_gg=1.5, t_g=0.8, t_gg=0.1, t_grade=0.05, tms=1.0)
    s.update(settings or {})
    r.switch_index, r.oc_relay_type, r.curve_type, r.tripped, r.activation_parameter = sw, rtype, curve, False, "i_ka"
    for k, v in s.items():
        setattr(r, k, v)
    if rtype != "DTOC":
        r._select_k_alpha()
        if rtype == "IDTOC":
            # graded: t_g not above the inverse time at I_g
            t_at = (r.tms * r.k) / (((r.I_g / r.I_s) ** r.alpha) - 1) + r.t_grade
            r.t_g = min(r.t_g, t_at)
            r.t_gg = min(r.t_gg, r.t_g)
    pick = r.I_g if rtype == "DTOC" else r.I_s
    fails = []
    for scen, tab, col in (("pp", "res_switch", "i_ka"), ("sc", "res_switch_sc", "ikss_ka")):
        last = None
        for i in np.sort(np.concatenate([np.linspace(0.01, 3., 300), [r.I_s, r.I_g, r.I_gg]])):
            net[tab].at[sw, col] = i
            res = r.protection_function(net, scen)
            if res["activation_parameter_value"] != i:
                fails.append("activation value differs")
            if bool(res["trip_melt"]) != bool(i > pick):
                fails.append(f"{rtype}/{curve}/{scen}: i={i:.4f} trip={res['trip_melt']} pick-up={pick}")
                break
            t = res["trip_melt_time_s"]
            if last is not None and t > last * (1 + 1e-9) + 1e-12:
                fails.append(f"{rtype}/{curve}/{scen}: trip time increases with current ({last:.6g} -> {t:.6g} at i={i:.4f})")
                break
            last = t
    if fails:
        print("VIOLATION REPRODUCED:", fails[0])
        sys.exit(1)
    print("not reproduced")
    sys.exit(0)


def devices_more():
    """printing a fuse; relay settings entered by hand (I>> stage, tables ordered differently from the switches)"""
    import pandas as pd
    from pandapower.shortcircuit import calc_sc
    from pandapower.protection.protection_devices.fuse import Fuse
    from pandapower.protection.protection_devices.ocrelay import OCRelay
    from pandapower.protection.run_protection import calculate_protection_times
    fails = []

    # (1) str(fuse) must not change the device: same fault before and after printing
    def lv():
        net = pp.create_empty_network()
        b = pp.create_buses(net, 4, 0.4)
        pp.create_ext_grid(net, b[0], s_sc_max_mva=10., rx_max=0.1)
        for i in range(3):
            pp.create_line(net, b[i], b[i + 1], 0.1, "NAYY 4x150 SE")
        net.line["endtemp_degree"] = 250
        sw = [pp.create_switch(net, b[i], i, et="l") for i in range(3)]
        pp.create_load(net, b[3], 0.05)
        return net, b, sw
    net, b, sw = lv()
    f0 = Fuse(net, sw[0], fuse_type="Siemens NH-2-630"); Fuse(net, sw[1], fuse_type="Siemens NH-2-315"); Fuse(net, sw[2], fuse_type="Siemens NH-1-100")
    calc_sc(net, bus=b[3], branch_results=True)
    before = f0.protection_function(net, scenario="sc")
    str(f0)
    after = f0.protection_function(net, scenario="sc")
    if not np.isclose(float(before["trip_melt_time_s"]), float(after["trip_melt_time_s"])):
        fails.append(f"fuse NH-2-630 at {before['activation_parameter_value']:.4f} kA: melting time {float(before['trip_melt_time_s']):.4f} s, after "
                     f"str(fuse) {float(after['trip_melt_time_s']):.4f} s for the same current")

    def mv(cb):
        net = pp.create_empty_network()
        pp.create_buses(net, 4, 20, geodata=[(0, 0), (0, -1), (0, -2), (0, -3)])
        pp.create_ext_grid(net, 0, s_sc_max_mva=100, s_sc_min_mva=50, rx_max=0.1, rx_min=0.1)
        pp.create_lines(net, [0, 1, 2], [1, 2, 3], length_km=[2, 5, 4], std_type="NAYY 4x50 SE")
        net.line["endtemp_degree"] = 250
        pp.create_switches(net, buses=[0, 1, 2], elements=[0, 1, 2], et="l", type=cb)
        pp.create_load(net, 3, 2, 1)
        return net
    # (2) the high-set stage picks up at the entered I>>, not at I>
    for kind in ("DTOC", "IDTOC"):
        net = mv("CB_DTOC")
        I_gg, I_g, I_s, t_gg, t_g = 2.0, 0.3, 0.25, 0.05, 1.0
        pick = pd.DataFrame({"switch_id": [0, 1, 2], "I_gg": [I_gg] * 3, "I_g": [I_g] * 3, "I_s": [I_s] * 3})
        relay = OCRelay(net, 1, kind, time_settings=[t_gg, t_g, 0.] if kind == "DTOC" else [t_gg, t_g, 0., 1., 0.], pickup_current_manual=pick)
        calc_sc(net, bus=3, branch_results=True)
        res = relay.protection_function(net, scenario="sc")
        i_ka, t = res["activation_parameter_value"], res["trip_melt_time_s"]
        if I_g < i_ka < I_gg and not np.isclose(t, relay.t_g):
            fails.append(f"{kind} relay with I>> = {I_gg} kA (t>> = {t_gg} s) and I> = {I_g} kA (t> = {t_g} s): {i_ka:.3f} kA (below I>>) trips after {t} s")
    # (3) manual tables carry a switch_id column: every relay uses the row of its own switch
    net = mv("CB_IDMT")
    I_s, tms, t_grade, order = {2: 0.2, 1: 0.5, 0: 3.0}, {2: 0.1, 1: 0.2, 0: 0.3}, {2: 0.0, 1: 0.4, 0: 0.8}, [2, 1, 0]
    pick = pd.DataFrame({"switch_id": order, "I_s": [I_s[s] for s in order]})
    ts = pd.DataFrame({"switch_id": order, "tms": [tms[s] for s in order], "t_grade": [t_grade[s] for s in order]})
    for s in (0, 1, 2):
        OCRelay(net, s, "IDMT", time_settings=ts, pickup_current_manual=pick)
    calc_sc(net, bus=3, branch_results=True)
    res = calculate_protection_times(net, scenario="sc").set_index("switch_id")
    for s in (0, 1, 2):
        i_ka, trip = res.at[s, "activation_parameter_value"], bool(res.at[s, "trip_melt"])
        if trip != (i_ka > I_s[s]):
            fails.append(f"IDMT relay on switch {s} with the pick-up value I_s = {I_s[s]} kA entered for that switch (tables ordered 2, 1, 0): "
                         f"{i_ka:.3f} kA -> trip = {trip}")
    for f in fails:
        print("REPRODUCED:", f)
    if not fails:
        print("not reproduced: printing does not change a fuse; relays use the settings entered for their own switch")
    sys.exit(1 if fails else 0)
