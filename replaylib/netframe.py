"""Native replays for C08: calculations (optionally with a failure injected at a call site) must leave the input tables alone."""
import sys
import copy
import importlib
import numpy as np
import pandas as pd
import pandapower as pp
import pandapower.networks as nw

PATCH_MODULES = ["pandapower.powerflow", "pandapower.optimal_powerflow", "pandapower.shortcircuit.calc_sc",
                 "pandapower.shortcircuit.ppc_conversion", "pandapower.pf.runpp_3ph", "pandapower.pd2ppc", "pandapower.results"]


def net_with_dcline():
    net = nw.case9()
    pp.create_dcline(net, 3, 7, p_mw=10., loss_percent=1., loss_mw=0.1, vm_from_pu=1.0, vm_to_pu=1.0, max_p_mw=50.,
                     min_q_from_mvar=-10, max_q_from_mvar=10, min_q_to_mvar=-10, max_q_to_mvar=10)
    return net


def tables(net):
    return {k: v.copy() for k, v in net.items() if isinstance(v, pd.DataFrame) and not k.startswith("res_") and not k.startswith("_")}


def diff(a, net):
    b = tables(net)
    for k in a:
        if k not in b:
            return f"table {k} removed"
        if list(a[k].index) != list(b[k].index):
            return f"table {k}: {len(a[k])} rows -> {len(b[k])} rows"
        for c in a[k].columns:
            if c not in b[k].columns:
                return f"{k}.{c} removed"
            if a[k][c].equals(b[k][c]):
                continue
            x, y = list(a[k][c].values), list(b[k][c].values)
            same = len(x) == len(y) and all((pd.isna(p) and pd.isna(q)) if (pd.isna(p) is True or pd.isna(q) is True) else bool(p == q)
                                           for p, q in zip(x, y))
            if not same:
                return f"{k}.{c}: {list(x)[:5]} -> {list(y)[:5]}"
    return None


class Inject:
    def __init__(self, name):
        self.name = name
        self.saved = []

    def __enter__(self):
        def boom(*a, **k):
            raise RuntimeError(f"injected failure in {self.name}")
        for m in PATCH_MODULES:
            try:
                mod = importlib.import_module(m)
            except Exception:
                continue
            if hasattr(mod, self.name):
                self.saved.append((mod, getattr(mod, self.name)))
                setattr(mod, self.name, boom)
        return self

    def __exit__(self, *a):
        for mod, f in self.saved:
            setattr(mod, self.name, f)


def main_aux(driver, where, aux):
    net = net_with_dcline()
    calls = {"_powerflow": lambda n: pp.runpp(n), "_optimal_powerflow": lambda n: pp.rundcopp(n),
             "_calc_sc": lambda n: __import__("pandapower.shortcircuit", fromlist=["calc_sc"]).calc_sc(n, fault="3ph", case="max"),
             "_calc_sc_1ph": lambda n: __import__("pandapower.shortcircuit", fromlist=["calc_sc"]).calc_sc(n, fault="1ph", case="max"),
             "runpp_3ph": lambda n: __import__("pandapower.pf.runpp_3ph", fromlist=["runpp_3ph"]).runpp_3ph(n),
             "_recycled_powerflow": lambda n: (pp.runpp(n), pp.runpp(n, recycle=dict(bus_pq=True, trafo=False, gen=False)))}
    if driver not in calls:
        print("no replay for driver", driver)
        sys.exit(2)
    if driver in ("_calc_sc", "_calc_sc_1ph"):
        net.ext_grid["s_sc_max_mva"] = 1000.; net.ext_grid["rx_max"] = 0.1
        net.ext_grid["x0x_max"] = 1.; net.ext_grid["r0x0_max"] = 0.1
        for c, v in (("vn_kv", 345.), ("sn_mva", 100.), ("xdss_pu", 0.2), ("rdss_ohm", 0.1), ("cos_phi", 0.9)):
            net.gen[c] = v
        net.line["endtemp_degree"] = 80.
        for c, v in (("r0_ohm_per_km", 0.1), ("x0_ohm_per_km", 0.3), ("c0_nf_per_km", 10.)):
            net.line[c] = v
    if driver == "_optimal_powerflow":
        for g in net.gen.index:
            if not ((net.poly_cost.element == g) & (net.poly_cost.et == "gen")).any():
                pp.create_poly_cost(net, g, "gen", cp1_eur_per_mw=1.)
    inj = where.split("@", 1)[1] if where.startswith("raise@") else None
    variants = [calls[driver]]
    if driver == "_optimal_powerflow":
        variants.append(lambda n: pp.runopp(n))      # the AC driver passes other call sites (init_results) than the DC one
    import copy
    d = None
    for call in variants:
        n2 = copy.deepcopy(net)
        before = tables(n2)
        try:
            if inj:
                with Inject(inj):
                    call(n2)
            else:
                call(n2)
        except Exception as e:
            print("calculation raised", type(e).__name__, str(e)[:100])
        d = diff(before, n2)
        if d and ("gen" in d or "vsc" in d):
            print(f"VIOLATION REPRODUCED: {driver} ({where}): {d}")
            sys.exit(1)
    print("not reproduced", d or "")
    sys.exit(0)


def main_frame(function=None):
    fails = []
    # 2W / 3W transformers with tap dependency table off neutral, shunt without rated voltage
    net = nw.example_multivoltage()
    net.trafo["tap_dependency_table"] = False
    net.trafo["id_characteristic_table"] = pd.array([pd.NA] * len(net.trafo), dtype="Int64")
    t = net.trafo.index[0]
    net.trafo.loc[t, ["tap_dependency_table", "id_characteristic_table", "tap_pos"]] = [True, 0, 1]
    net.trafo3w["tap_dependency_table"] = False
    net.trafo3w["id_characteristic_table"] = pd.array([pd.NA] * len(net.trafo3w), dtype="Int64")
    t3 = net.trafo3w.index[0]
    net.trafo3w.loc[t3, ["tap_dependency_table", "id_characteristic_table", "tap_pos"]] = [True, 1, 1]
    rows = []
    for step in (-2, -1, 0, 1, 2):
        rows.append(dict(id_characteristic=0, step=step, voltage_ratio=1 + 0.01 * step, angle_deg=0., vk_percent=net.trafo.vk_percent.at[t] + step,
                         vkr_percent=net.trafo.vkr_percent.at[t] + 0.1 * step, vk_hv_percent=np.nan, vkr_hv_percent=np.nan,
                         vk_mv_percent=np.nan, vkr_mv_percent=np.nan, vk_lv_percent=np.nan, vkr_lv_percent=np.nan))
        rows.append(dict(id_characteristic=1, step=step, voltage_ratio=1 + 0.01 * step, angle_deg=0., vk_percent=np.nan, vkr_percent=np.nan,
                         vk_hv_percent=net.trafo3w.vk_hv_percent.at[t3] + step, vkr_hv_percent=net.trafo3w.vkr_hv_percent.at[t3] + .1 * step,
                         vk_mv_percent=net.trafo3w.vk_mv_percent.at[t3] + step, vkr_mv_percent=net.trafo3w.vkr_mv_percent.at[t3] + .1 * step,
                         vk_lv_percent=net.trafo3w.vk_lv_percent.at[t3] + step, vkr_lv_percent=net.trafo3w.vkr_lv_percent.at[t3] + .1 * step))
    net["trafo_characteristic_table"] = pd.DataFrame(rows)
    pp.create_shunt(net, net.bus.index[5], q_mvar=-0.5, vn_kv=np.nan)
    for label, fn in (("runpp", lambda n: pp.runpp(n)), ("rundcpp", lambda n: pp.rundcpp(n)),
                      ("runpp pi/power", lambda n: pp.runpp(n, trafo_model="pi", trafo_loading="power", init="dc"))):
        n = copy.deepcopy(net)
        before = tables(n)
        try:
            fn(n)
        except Exception as e:
            print(label, "raised", type(e).__name__, str(e)[:100])
        d = diff(before, n)
        if d:
            fails.append(f"{label} modified the input tables: {d}")
            break
    if fails:
        print("VIOLATION REPRODUCED:", fails[0])
        sys.exit(1)
    print("not reproduced")
    sys.exit(0)


def net_with_b2b_vsc():
    net = pp.create_empty_network()
    pp.create_buses(net, 9, 380.)
    pp.create_ext_grid(net, bus=0, vm_pu=1.0)
    pp.create_ext_grid(net, bus=1, vm_pu=1.0)
    for f, t in ((0, 2), (1, 3), (4, 6), (5, 7), (0, 8)):
        pp.create_line_from_parameters(net, f, t, 1, 0.0487, 0.13823, 160, 0.664)
    pp.create_load(net, bus=6, p_mw=100.)
    pp.create_load(net, bus=7, p_mw=150.)
    for name in "ABCDEF":
        pp.create_bus_dc(net, 380., name)
    pp.create_line_dc_from_parameters(net, 0, 3, length_km=100, r_ohm_per_km=0.0212, max_i_ka=0.963)
    pp.create_line_dc_from_parameters(net, 2, 5, length_km=100, r_ohm_per_km=0.0212, max_i_ka=0.963)
    pp.create_line_dc_from_parameters(net, 1, 4, length_km=100, r_ohm_per_km=0.0212, max_i_ka=0.963)
    pp.create_b2b_vsc(net, 2, 0, 1, 0.2, 10, 0.3, control_mode_ac="vm_pu", control_value_ac=1., control_mode_dc="vm_pu", control_value_dc=1.)
    pp.create_b2b_vsc(net, 3, 1, 2, 0.2, 10, 0.3, control_mode_ac="vm_pu", control_value_ac=1., control_mode_dc="vm_pu", control_value_dc=1.)
    pp.create_b2b_vsc(net, 4, 3, 4, 0.2, 10, 0.3, control_mode_ac="slack", control_value_ac=1., control_mode_dc="p_mw", control_value_dc=1.5)
    pp.create_b2b_vsc(net, 5, 4, 5, 0.2, 10, 0.3, control_mode_ac="slack", control_value_ac=1., control_mode_dc="p_mw", control_value_dc=0.5)
    return net


def main_pairing():
    """normal return and non-convergence (clean-up with res=False) on nets with dclines / b2b_vscs: row sets unchanged"""
    fails = []
    for label, mk in (("dcline", net_with_dcline), ("b2b_vsc", net_with_b2b_vsc)):
        for how, kw in (("converging", {}), ("not converging (max_iteration=1)", {"max_iteration": 1})):
            net = mk()
            before = tables(net)
            try:
                pp.runpp(net, **kw)
            except Exception as e:
                print(label, how, "raised", type(e).__name__)
            d = diff(before, net)
            if d:
                fails.append(f"net with {label}, power flow {how}: {d}")
    if fails:
        print("VIOLATION REPRODUCED:", fails[0])
        sys.exit(1)
    print("not reproduced")
    sys.exit(0)


def main_3ph():
    """runpp_3ph on a net with a dcline: no auxiliary elements are added there, so nothing may be removed from the user's tables"""
    import copy
    fails = []

    def build():
        net = pp.create_empty_network()
        pp.create_buses(net, 4, 20.)
        pp.create_ext_grid(net, 0, s_sc_max_mva=1000, rx_max=0.1, x0x_max=1.0, r0x0_max=0.1)
        for f, t in ((0, 1), (1, 2), (2, 3)):
            pp.create_line_from_parameters(net, f, t, 5, r_ohm_per_km=0.2, x_ohm_per_km=0.3, c_nf_per_km=10, max_i_ka=0.4, r0_ohm_per_km=0.6,
                                           x0_ohm_per_km=1.0, c0_nf_per_km=5)
        pp.create_asymmetric_load(net, 3, p_a_mw=0.3, p_b_mw=0.2, p_c_mw=0.1, q_a_mvar=0.05, q_b_mvar=0.05, q_c_mvar=0.02)
        pp.create_load(net, 2, 0.5, 0.1)
        pp.create_gen(net, 1, p_mw=0.2, vm_pu=1.0, name="gen A", in_service=False)
        pp.create_gen(net, 2, p_mw=0.1, vm_pu=1.0, name="gen B", in_service=False)
        pp.create_dcline(net, 1, 3, p_mw=0.1, loss_percent=1, loss_mw=0.01, vm_from_pu=1.0, vm_to_pu=1.0)
        return net
    for first_runpp in (True, False):
        net = build()
        if first_runpp:
            pp.runpp(net)
        before = copy.deepcopy(net.gen)
        outcome = "returned"
        try:
            pp.runpp_3ph(net)
        except Exception as e:
            outcome = f"raised {type(e).__name__}"
        if not before.equals(net.gen):
            fails.append(f"runpp_3ph ({'after a runpp' if first_runpp else 'on a fresh net'}) {outcome}: net.gen went from {len(before)} rows "
                         f"{before.name.tolist()} to {len(net.gen)} rows {net.gen.name.tolist()}")
    for f in fails:
        print("REPRODUCED:", f)
    if not fails:
        print("not reproduced: runpp_3ph leaves net.gen as it was")
    sys.exit(1 if fails else 0)


def main_other_drivers():
    """drivers outside the deductive part that convert user tables temporarily: the tables are as before when the driver raises"""
    import copy
    fails = []
    # (1) run_contingency_ls2g with an ideal phase shifter; lightsim2grid rejects the net (ward)
    import pandapower.contingency as cont
    if getattr(cont.contingency, "lightsim2grid_installed", False):
        net = pp.create_empty_network()
        pp.create_buses(net, 5, 110.)
        pp.create_ext_grid(net, 0)
        for f, t in ((0, 1), (1, 2), (0, 2), (3, 4), (2, 4)):
            pp.create_line(net, f, t, 10, "149-AL1/24-ST1A 110.0")
        pp.create_transformer_from_parameters(net, 2, 3, sn_mva=100, vn_hv_kv=110, vn_lv_kv=110, vkr_percent=0.3, vk_percent=10, pfe_kw=0, i0_percent=0,
                                              shift_degree=0, tap_side="hv", tap_neutral=0, tap_min=-5, tap_max=5, tap_pos=2, tap_step_degree=1.5,
                                              tap_step_percent=0., tap_changer_type="Ideal")
        pp.create_load(net, 4, 30, 5); pp.create_load(net, 1, 20, 5)
        pp.create_ward(net, 1, ps_mw=1, qs_mvar=1, pz_mw=1, qz_mvar=1)
        net.line["max_loading_percent"] = 100.; net.trafo["max_loading_percent"] = 100.
        cols = ["tap_pos", "shift_degree", "tap_changer_type"]
        before = copy.deepcopy(net.trafo[cols])
        err = "returned"
        try:
            cont.run_contingency_ls2g(net, {"line": {"index": [0, 1, 2]}})
        except Exception as e:
            err = f"raised {type(e).__name__}"
        changed = [c for c in cols if before[c].tolist() != net.trafo[c].tolist()]
        if changed:
            fails.append(f"run_contingency_ls2g {err} and left net.trafo changed: " +
                         "; ".join(f"{c} {before[c].tolist()} -> {net.trafo[c].tolist()}" for c in changed))
    else:
        print("note: lightsim2grid is not installed, run_contingency_ls2g not exercised")
    # (2) state estimation that is not observable, closed bus-bus switches are given an impedance temporarily
    try:
        from pandapower.estimation import estimate
    except Exception as e:
        estimate = None
        print(f"note: pandapower.estimation does not import ({type(e).__name__}), not exercised")
    if estimate is not None:
        net = pp.create_empty_network()
        b = [pp.create_bus(net, 10.) for _ in range(4)] + [pp.create_bus(net, 110.)]
        pp.create_line_from_parameters(net, b[0], b[1], 10, r_ohm_per_km=.59, x_ohm_per_km=.35, c_nf_per_km=10.1, max_i_ka=1)
        pp.create_transformer(net, b[4], b[0], std_type="40 MVA 110/10 kV")
        pp.create_ext_grid(net, b[4])
        for x, p in zip(b[:4], (.35, .45, .25, .15)):
            pp.create_load(net, x, p_mw=p, q_mvar=.1)
        pp.create_switch(net, b[1], element=b[2], et="b"); pp.create_switch(net, b[0], element=b[3], et="b")
        pp.runpp(net, calculate_voltage_angles=True)
        pp.create_measurement(net, "v", "bus", float(net.res_bus.vm_pu.at[b[4]]), .002, element=b[4])
        pp.create_measurement(net, "p", "bus", float(net.res_bus.p_mw.at[b[4]]), .002, element=b[4])
        pp.create_measurement(net, "q", "bus", float(net.res_bus.q_mvar.at[b[4]]), .002, element=b[4])
        pp.create_measurement(net, "p", "line", float(net.res_line.p_from_mw.at[0]), .002, element=0, side="from")
        before = copy.deepcopy(net.switch)
        err = "returned"
        try:
            estimate(net, fuse_buses_with_bb_switch=None)
        except BaseException as e:
            err = f"raised {type(e).__name__}"
        if err != "returned":
            extra = [c for c in net.switch.columns if c not in before.columns]
            if before.z_ohm.tolist() != net.switch.z_ohm.tolist() or extra:
                fails.append(f"estimate(net, fuse_buses_with_bb_switch=None) {err} and left switch.z_ohm {before.z_ohm.tolist()} -> "
                             f"{net.switch.z_ohm.tolist()}, added columns {extra}")
    for f in fails:
        print("REPRODUCED:", f)
    if not fails:
        print("not reproduced: the converted tables are restored when the driver raises")
    sys.exit(1 if fails else 0)
