"""Native replay for C17: res_cost must equal the user's cost functions evaluated at the elements' own result powers."""
import sys
import numpy as np
import pandapower as pp


def build(et):
    net = pp.create_empty_network()
    b1 = pp.create_bus(net, 110., min_vm_pu=0.9, max_vm_pu=1.1)
    b2 = pp.create_bus(net, 110., min_vm_pu=0.9, max_vm_pu=1.1)
    b3 = pp.create_bus(net, 110., min_vm_pu=0.9, max_vm_pu=1.1)
    pp.create_line_from_parameters(net, b1, b2, 10., 0.1, 0.3, 10., 1.0, max_loading_percent=100.)
    pp.create_line_from_parameters(net, b2, b3, 10., 0.1, 0.3, 10., 1.0, max_loading_percent=100.)
    eg = pp.create_ext_grid(net, b1, min_p_mw=-1000, max_p_mw=1000, min_q_mvar=-1000, max_q_mvar=1000)
    pp.create_load(net, b2, p_mw=15., q_mvar=2., controllable=False)
    if et == "load":
        idx = pp.create_load(net, b3, p_mw=20., controllable=True, min_p_mw=2., max_p_mw=30., min_q_mvar=-1., max_q_mvar=5.)
    elif et == "storage":
        idx = pp.create_storage(net, b3, p_mw=5., max_e_mwh=100., controllable=True, min_p_mw=2., max_p_mw=30., min_q_mvar=-1., max_q_mvar=5.)
    elif et == "sgen":
        idx = pp.create_sgen(net, b3, p_mw=10., controllable=True, min_p_mw=2., max_p_mw=30., min_q_mvar=-5., max_q_mvar=5.)
    elif et == "gen":
        idx = pp.create_gen(net, b3, p_mw=10., vm_pu=1.0, controllable=True, min_p_mw=2., max_p_mw=30., min_q_mvar=-5., max_q_mvar=5.)
    elif et == "ext_grid":
        idx = eg
    elif et == "dcline":
        b4 = pp.create_bus(net, 110., min_vm_pu=0.9, max_vm_pu=1.1)
        pp.create_line_from_parameters(net, b3, b4, 10., 0.1, 0.3, 10., 1.0, max_loading_percent=100.)
        pp.create_load(net, b4, p_mw=10., controllable=False)
        idx = pp.create_dcline(net, b2, b4, p_mw=5., loss_percent=0., loss_mw=0., vm_from_pu=1.0, vm_to_pu=1.0,
                               max_p_mw=30., min_q_from_mvar=-5, max_q_from_mvar=5, min_q_to_mvar=-5, max_q_to_mvar=5)
    else:
        raise ValueError(et)
    return net, idx


def own_power(net, et, idx, q=False):
    col = "q_mvar" if q else "p_mw"
    if et == "dcline":
        return net.res_dcline.at[idx, "p_from_mw" if not q else "q_from_mvar"]
    return net["res_" + et].at[idx, col]


def poly(c2, c1, c0, p):
    return c2 * p * p + c1 * p + c0


def pwl(points, p):
    c = points[0][0] * points[0][2]
    for lo, up, s in points:
        if p <= up or (lo, up, s) == tuple(points[-1]):
            return c + (p - lo) * s
        c += (up - lo) * s
    return c


def check(et, kind, data, runner, tol=1e-3):
    net, idx = build(et)
    if kind == "poly":
        c2, c1, c0 = data
        pp.create_poly_cost(net, idx, et, cp1_eur_per_mw=c1, cp0_eur=c0, cp2_eur_per_mw2=c2)
    else:
        pp.create_pwl_cost(net, idx, et, [list(map(float, a)) for a in data])
    # a small cost on the slack keeps the problem well-posed
    other = 0.0
    if et != "ext_grid":
        pp.create_poly_cost(net, 0, "ext_grid", cp1_eur_per_mw=0.01) if kind == "poly" else \
            pp.create_pwl_cost(net, 0, "ext_grid", [[-1000., 1000., 0.01]])
    try:
        runner(net)
    except Exception as e:
        return None, f"{runner.__name__} failed: {type(e).__name__}: {e}"
    p = own_power(net, et, idx)
    user = poly(*data, p) if kind == "poly" else pwl(data, p)
    if et != "ext_grid":
        user += 0.01 * net.res_ext_grid.p_mw.at[0]
    return abs(net.res_cost - user) <= tol * max(1., abs(user)), \
        f"{runner.__name__}: et={et} {kind} data={data}: own p={p:.6f} res_cost={net.res_cost:.6f} user cost={user:.6f}"


def main(et, kind, candidates):
    """exit 1 if some candidate cost data set shows res_cost != user's cost at the result"""
    any_ran = False
    for data in candidates:
        for runner in (pp.rundcopp, pp.runopp):
            ok, msg = check(et, kind, data, runner)
            if ok is None:
                print("skipped:", msg)
                continue
            any_ran = True
            if not ok:
                print("VIOLATION REPRODUCED:", msg)
                sys.exit(1)
            print("ok:", msg)
    print("not reproduced" if any_ran else "no OPF run succeeded")
    sys.exit(0 if any_ran else 2)


def main_dropped_row():
    """cost table contains an entry whose element is not an OPF variable (non-controllable load), followed by entries
    of the opposite sign class: every entry must still be applied to its own element with its own sign"""
    import pandapower.networks as nw
    fails = []
    for kind in ("pwl", "poly"):
        for runner in (pp.rundcopp, pp.runopp):
            net = pp.create_empty_network()
            bs = [pp.create_bus(net, 110., min_vm_pu=0.9, max_vm_pu=1.1) for _ in range(3)]
            for a, b in ((0, 1), (1, 2), (0, 2)):
                pp.create_line_from_parameters(net, bs[a], bs[b], 10., 0.1, 0.3, 10., 1.0, max_loading_percent=100.)
            pp.create_ext_grid(net, bs[0], min_p_mw=-1000, max_p_mw=1000, min_q_mvar=-1000, max_q_mvar=1000)
            ld = pp.create_load(net, bs[1], p_mw=40., q_mvar=5., controllable=False)
            g0 = pp.create_gen(net, bs[1], p_mw=10., vm_pu=1., controllable=True, min_p_mw=0., max_p_mw=30., min_q_mvar=-20, max_q_mvar=20)
            g1 = pp.create_gen(net, bs[2], p_mw=10., vm_pu=1., controllable=True, min_p_mw=0., max_p_mw=30., min_q_mvar=-20, max_q_mvar=20)
            if kind == "pwl":
                pp.create_pwl_cost(net, ld, "load", [[0., 100., 1.]])
                pp.create_pwl_cost(net, g0, "gen", [[0., 30., 10.]])
                pp.create_pwl_cost(net, g1, "gen", [[0., 30., 20.]])
                pp.create_pwl_cost(net, 0, "ext_grid", [[-1000., 1000., 50.]])
                user = lambda: 10. * net.res_gen.p_mw.at[g0] + 20. * net.res_gen.p_mw.at[g1] + 50. * net.res_ext_grid.p_mw.at[0]
            else:
                pp.create_poly_cost(net, ld, "load", cp1_eur_per_mw=1.)
                pp.create_poly_cost(net, g0, "gen", cp1_eur_per_mw=10.)
                pp.create_poly_cost(net, g1, "gen", cp1_eur_per_mw=20.)
                pp.create_poly_cost(net, 0, "ext_grid", cp1_eur_per_mw=50.)
                user = lambda: 10. * net.res_gen.p_mw.at[g0] + 20. * net.res_gen.p_mw.at[g1] + 50. * net.res_ext_grid.p_mw.at[0]
            try:
                runner(net)
            except Exception as e:
                print(f"skipped {kind}/{runner.__name__}: {type(e).__name__}: {e}")
                # an exception caused by misaligned cost vectors is itself a reproduction
                if isinstance(e, (ValueError, IndexError)) and "OPF" not in type(e).__name__:
                    fails.append(f"{kind}/{runner.__name__} raised {type(e).__name__}: {e}")
                continue
            u = user()
            msg = f"{kind}/{runner.__name__}: res_cost={net.res_cost:.4f} user cost at result={u:.4f}"
            print(msg)
            if abs(net.res_cost - u) > 1e-3 * max(1., abs(u)):
                fails.append(msg)
    if fails:
        print("VIOLATION REPRODUCED:", fails[0])
        sys.exit(1)
    print("not reproduced")
    sys.exit(0)


def _user_cost(net):
    """the user's cost functions evaluated at the elements' own result powers"""
    total = 0.
    for _, c in net.poly_cost.iterrows():
        if c.et != "dcline" and not bool(net[c.et].at[c.element, "in_service"]):
            continue
        p = own_power(net, c.et, c.element)
        total += poly(c.cp2_eur_per_mw2, c.cp1_eur_per_mw, c.cp0_eur, p)
        q = own_power(net, c.et, c.element, q=True)
        if (c.cq2_eur_per_mvar2 or c.cq1_eur_per_mvar or c.cq0_eur) and not np.isnan(q):     # DC OPF: no reactive power, no q cost
            total += poly(c.cq2_eur_per_mvar2, c.cq1_eur_per_mvar, c.cq0_eur, q)
    for _, c in net.pwl_cost.iterrows():
        if c.et != "dcline" and not bool(net[c.et].at[c.element, "in_service"]):
            continue
        total += pwl([tuple(a) for a in c.points], own_power(net, c.et, c.element, q=(c.power_type == "q")))
    return total


def _ring(gen_labels=(0, 1)):
    net = pp.create_empty_network()
    bs = [pp.create_bus(net, 110., min_vm_pu=0.9, max_vm_pu=1.1) for _ in range(3)]
    for a, b in ((0, 1), (1, 2), (0, 2)):
        pp.create_line_from_parameters(net, bs[a], bs[b], 10., 0.1, 0.3, 10., 1.0, max_loading_percent=100.)
    pp.create_ext_grid(net, bs[0], min_p_mw=-1000, max_p_mw=1000, min_q_mvar=-1000, max_q_mvar=1000)
    pp.create_load(net, bs[1], p_mw=60., q_mvar=5., controllable=False)
    for lab, b in zip(gen_labels, (1, 2)):
        pp.create_gen(net, bs[b], p_mw=10., vm_pu=1., controllable=True, min_p_mw=0., max_p_mw=50., min_q_mvar=-20, max_q_mvar=20, index=lab)
    return net


def main_more(only=None):
    """cost entries of elements without an OPF variable (out of service), constant / reactive terms of linear costs next to pwl costs,
    dcline costs with gen labels other than 0..n-1"""
    fails = []

    def run(tag, net, tol=1e-3):
        if only and only not in tag:
            return
        for runner in (pp.rundcopp, pp.runopp):
            try:
                runner(net)
            except Exception as e:
                print(f"skipped {tag}/{runner.__name__}: {type(e).__name__}: {e}")
                continue
            user = _user_cost(net)
            if abs(net.res_cost - user) > tol * max(1., abs(user)):
                fails.append(f"{tag}, {runner.__name__}: res_cost = {net.res_cost:.4f}, the user's cost functions at the result powers give {user:.4f}")
    # (1) an out-of-service gen with a cost entry, listed before the gen in service
    net = _ring()
    net.gen.at[0, "in_service"] = False
    pp.create_poly_cost(net, 0, "ext_grid", cp1_eur_per_mw=50.)
    pp.create_poly_cost(net, 1, "gen", cp1_eur_per_mw=100.); pp.create_poly_cost(net, 0, "gen", cp1_eur_per_mw=1.)
    run("cost entry of an out-of-service gen (1 EUR/MW) next to a gen in service (100 EUR/MW)", net)
    # (2) linear polynomial costs with constant and reactive terms next to a pwl cost
    net = _ring()
    pp.create_poly_cost(net, 0, "gen", cp1_eur_per_mw=30., cp0_eur=1000., cq1_eur_per_mvar=40., cq0_eur=7.)
    pp.create_poly_cost(net, 1, "gen", cp1_eur_per_mw=35.)
    pp.create_pwl_cost(net, 0, "ext_grid", [[-1000., 1000., 40.]])
    run("linear costs with cp0 / cq1 / cq0 next to a pwl cost", net)
    # (3) a lone constant reactive cost
    net = _ring()
    pp.create_poly_cost(net, 0, "gen", cp1_eur_per_mw=30., cq0_eur=7.); pp.create_poly_cost(net, 1, "gen", cp1_eur_per_mw=35.)
    pp.create_poly_cost(net, 0, "ext_grid", cp1_eur_per_mw=40.)
    run("polynomial costs whose only reactive term is cq0", net)
    # (4) dcline cost, gen labels (3, 1)
    for labels in ((0, 1), (3, 1)):
        net = _ring(labels)
        pp.create_dcline(net, 0, 2, p_mw=5., loss_percent=0., loss_mw=0., vm_from_pu=1.0, vm_to_pu=1.0, max_p_mw=30., min_q_from_mvar=-5,
                         max_q_from_mvar=5, min_q_to_mvar=-5, max_q_to_mvar=5)
        pp.create_poly_cost(net, labels[0], "gen", cp1_eur_per_mw=30.); pp.create_poly_cost(net, labels[1], "gen", cp1_eur_per_mw=35.)
        pp.create_poly_cost(net, 0, "ext_grid", cp1_eur_per_mw=40.); pp.create_poly_cost(net, 0, "dcline", cp1_eur_per_mw=-15.)
        run(f"dcline cost with gen labels {labels}", net)
    for f in fails:
        print("REPRODUCED:", f)
    if not fails:
        print("not reproduced: res_cost equals the user's cost functions on all further replay cases")
    sys.exit(1 if fails else 0)
