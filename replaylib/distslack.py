"""Native replay for C10: distributed slack shares the balancing power in proportion to the slack weights.  exit 1 = reproduced."""
import sys
import numpy as np
import pandapower as pp


def _net(scaling=(1., 1.)):
    net = pp.create_empty_network()
    b = pp.create_buses(net, 5, 110.)
    pp.create_ext_grid(net, b[0], vm_pu=1.01, slack_weight=1.)
    pp.create_gen(net, b[1], p_mw=30., vm_pu=1.01, slack_weight=2., scaling=scaling[0])
    pp.create_gen(net, b[1], p_mw=10., vm_pu=1.01, slack_weight=1., scaling=scaling[1])
    pp.create_gen(net, b[3], p_mw=20., vm_pu=1.0, slack_weight=0.)
    pp.create_xward(net, b[2], 5., 1., 0.5, 0.2, 1., 5., 1.0, slack_weight=0.5)
    for f, t in ((0, 1), (1, 2), (2, 3), (3, 4), (4, 0)):
        pp.create_line_from_parameters(net, b[f], b[t], 20., 0.06, 0.3, 10., 0.8)
    pp.create_load(net, b[2], 70., 10.); pp.create_load(net, b[4], 45., 5.)
    return net


def main():
    fails = []
    for scaling in ((1., 1.), (0.6, 1.), (1., 1.5)):
        net = _net(scaling)
        pp.runpp(net, distributed_slack=True, tolerance_mva=1e-9)
        ratios = {"ext_grid 0": net.res_ext_grid.p_mw.at[0] / net.ext_grid.slack_weight.at[0]}
        for g in net.gen.index:
            dev = net.res_gen.p_mw.at[g] - net.gen.p_mw.at[g] * net.gen.scaling.at[g]
            if net.gen.slack_weight.at[g] > 0:
                ratios[f"gen {g}"] = dev / net.gen.slack_weight.at[g]
            elif abs(dev) > 1e-6:
                fails.append(f"scaling {scaling}: gen {g} with slack weight 0 deviates from its setpoint by {dev:.4f} MW")
        xw = net.res_xward.p_mw.at[0] - net.xward.ps_mw.at[0] - net.xward.pz_mw.at[0] * net.res_bus.vm_pu.at[net.xward.bus.at[0]] ** 2
        ratios["xward 0"] = -xw / net.xward.slack_weight.at[0]
        vals = np.array(list(ratios.values()))
        if np.max(vals) - np.min(vals) > 1e-4 * max(1., abs(vals).max()):
            fails.append(f"scaling {scaling}: deviation / slack_weight differs between participants: " + ", ".join(f"{k}: {v:.4f}" for k, v in ratios.items()))
    for f in fails:
        print("REPRODUCED:", f)
    if not fails:
        print("not reproduced: the balancing power is shared in proportion to the slack weights")
    sys.exit(1 if fails else 0)


def main_only_reference_buses():
    """every bus carries a reference machine: there is no PV and no PQ bus"""
    fails = []
    net = pp.create_empty_network()
    b = pp.create_buses(net, 3, 110.)
    for f, t in ((0, 1), (1, 2), (2, 0)):
        pp.create_line_from_parameters(net, b[f], b[t], 30., 0.06, 0.3, 10., 1.)
    pp.create_ext_grid(net, b[0], vm_pu=1.02, slack_weight=1.)
    pp.create_ext_grid(net, b[1], vm_pu=1.01, slack_weight=3.)
    pp.create_gen(net, b[2], p_mw=20., vm_pu=1.0, slack=True, slack_weight=0.5)
    pp.create_load(net, b[0], 30., 5.); pp.create_load(net, b[1], 40., 8.); pp.create_load(net, b[2], 25., 4.)
    pp.runpp(net, distributed_slack=True, tolerance_mva=1e-9)
    ratios = {"ext_grid 0": net.res_ext_grid.p_mw.at[0] / 1., "ext_grid 1": net.res_ext_grid.p_mw.at[1] / 3.,
              "gen 0": (net.res_gen.p_mw.at[0] - 20.) / 0.5}
    vals = np.array(list(ratios.values()))
    if np.max(vals) - np.min(vals) > 1e-4 * max(1., abs(vals).max()):
        fails.append("network of reference buses only: deviation / slack_weight differs between participants: " +
                     ", ".join(f"{k}: {v:.4f}" for k, v in ratios.items()))
    for f in fails:
        print("REPRODUCED:", f)
    if not fails:
        print("not reproduced: the balancing power is shared in proportion to the slack weights")
    sys.exit(1 if fails else 0)


if __name__ == "__main__":
    main()
