"""Native replay for C10: distributed slack shares the balancing power in proportion to the slack weights.  exit 1 = reproduced."""
import sys
import numpy as np
import pandapower as pp


def _net(scaling=(1., 1.)):
    net = pp.create_empty_network()
    b = pp.create_buses(net, 5, 110.)
    pp.create_ext_grid(net, b[0], vm_pu=1.01, slack_weight=1.)
    pp.create_gen(net, b[1], p_mw=30., vm_pu=1.01, slack_weight=2., scaling=scaling[0])
    pp.create_gen(net, b[1], p_mw=10., vm_pu=1.01, slack_weight=1., scaling=scaling[1])
    pp.create_gen(net, b[3], p_mw=20., vm_pu=1.0, slack_weight=0.)
    pp.create_xward(net, b[2], 5., 1., 0.5, 0.2, 1., 5., 1.0, slack_weight=0.5)
    for f, t in ((0, 1), (1, 2), (2, 3), (3, 4), (4, 0)):
        pp.create_line_from_parameters(net, b[f], b[t], 20., 0.06, 0.3, 10., 0.8)
    pp.create_load(net, b[2], 70., 10.); pp.create_load(net, b[4], 45., 5.)
    return net


def main():
    fails = []
    for scaling in ((1., 1.), (0.6, 1.), (1., 1.5)):
        net = _net(scaling)
        pp.runpp(net, distributed_slack=True, tolerance_mva=1e-9)
        ratios = {"ext_grid 0": net.res_ext_grid.p_mw.at[0] / net.ext_grid.slack_weight.at[0]}
        for g in net.gen.index:
            dev = net.res_gen.p_mw.at[g] - net.gen.p_mw.at[g] * net.gen.scaling.at[g]
            if net.gen.slack_weight.at[g] > 0:
                ratios[f"gen {g}"] = dev / net.gen.slack_weight.at[g]
            elif abs(dev) > 1e-6:
                fails.append(f"scaling {scaling}: gen {g} with slack weight 0 deviates from its setpoint by {dev:.4f} MW")
        xw = net.res_xward.p_mw.at[0] - net.xward.ps_mw.at[0] - net.xward.pz_mw.at[0] * net.res_bus.vm_pu.at[net.xward.bus.at[0]] ** 2
        ratios["xward 0"] = -xw / net.xward.slack_weight.at[0]
        vals = np.array(list(ratios.values()))
        if np.max(vals) - np.min(vals) > 1e-4 * max(1., abs(vals).max()):
            fails.append(f"scaling {scaling}: deviation / slack_weight differs between participants: " + ", ".join(f"{k}: {v:.4f}" for k, v in ratios.items()))
    for f in fails:
        print("REPRODUCED:", f)
    if not fails:
        print("not reproduced: the balancing power is shared in proportion to the slack weights")
    sys.exit(1 if fails else 0)


def main_only_reference_buses():
    """every bus carries a reference machine: there is no PV and no PQ bus"""
    fails = []
    net = pp.create_empty_network()
    b = pp.create_buses(net, 3, 110.)
    for f, t in ((0, 1), (1, 2), (2, 0)):
        pp.create_line_from_parameters(net, b[f], b[t], 30., 0.06, 0.3, 10., 1.)
    pp.create_ext_grid(net, b[0], vm_pu=1.02, slack_weight=1.)
    pp.create_ext_grid(net, b[1], vm_pu=1.01, slack_weight=3.)
    pp.create_gen(net, b[2], p_mw=20., vm_pu=1.0, slack=True, slack_weight=0.5)
    pp.create_load(net, b[0], 30., 5.); pp.create_load(net, b[1], 40., 8.); pp.create_load(net, b[2], 25., 4.)
    pp.runpp(net, distributed_slack=True, tolerance_mva=1e-9)
    ratios = {"ext_grid 0": net.res_ext_grid.p_mw.at[0] / 1., "ext_grid 1": net.res_ext_grid.p_mw.at[1] / 3.,
              "gen 0": (net.res_gen.p_mw.at[0] - 20.) / 0.5}
    vals = np.array(list(ratios.values()))
    if np.max(vals) - np.min(vals) > 1e-4 * max(1., abs(vals).max()):
        fails.append("network of reference buses only: deviation / slack_weight differs between participants: " +
                     ", ".join(f"{k}: {v:.4f}" for k, v in ratios.items()))
    for f in fails:
        print("REPRODUCED:", f)
    if not fails:
        print("not reproduced: the balancing power is shared in proportion to the slack weights")
    sys.exit(1 if fails else 0)


def _ratios(net, tag, fails, tol=1e-4):
    """deviation / slack weight of every participant; nodal balance of the reported results at every bus"""
    ratios = {}
    for e in net.ext_grid.index[net.ext_grid.in_service]:
        ratios[f"ext_grid {e}"] = net.res_ext_grid.p_mw.at[e] / net.ext_grid.slack_weight.at[e]
    for g in net.gen.index[net.gen.in_service]:
        dev = net.res_gen.p_mw.at[g] - net.gen.p_mw.at[g] * net.gen.scaling.at[g]
        if net.gen.slack_weight.at[g] > 0:
            ratios[f"gen {g}"] = dev / net.gen.slack_weight.at[g]
        elif abs(dev) > 1e-6:
            fails.append(f"{tag}: gen {g} with slack weight 0 deviates from its setpoint by {dev:.4f} MW")
    for x in net.xward.index:
        vm = net.res_bus.vm_pu.at[net.xward.bus.at[x]]
        if not net.xward.in_service.at[x]:
            if abs(np.nan_to_num(net.res_xward.p_mw.at[x])) > 1e-6:
                fails.append(f"{tag}: out-of-service xward {x} reports p_mw = {net.res_xward.p_mw.at[x]:.4f}")
            continue
        dev = net.res_xward.p_mw.at[x] - net.xward.ps_mw.at[x] - net.xward.pz_mw.at[x] * vm ** 2
        if net.xward.slack_weight.at[x] > 0:
            ratios[f"xward {x}"] = -dev / net.xward.slack_weight.at[x]
        elif abs(dev) > 1e-5:
            fails.append(f"{tag}: xward {x} with slack weight 0 deviates from its model power by {dev:.4f} MW")
    vals = np.array(list(ratios.values()))
    if np.max(vals) - np.min(vals) > tol * max(1., abs(vals).max()):
        fails.append(f"{tag}: deviation / slack_weight differs between participants: " + ", ".join(f"{k}: {v:.4f}" for k, v in ratios.items()))
    for b in net.bus.index:
        inj = net.res_line.p_from_mw[net.line.from_bus == b].sum() + net.res_line.p_to_mw[net.line.to_bus == b].sum()
        el = net.res_load.p_mw[net.load.bus == b].sum() - net.res_sgen.p_mw[net.sgen.bus == b].sum() + np.nansum(net.res_xward.p_mw[net.xward.bus == b]) \
            - net.res_gen.p_mw[net.gen.bus == b].sum() - net.res_ext_grid.p_mw[net.ext_grid.bus == b].sum()
        if abs(inj + el) > 1e-3:
            fails.append(f"{tag}: nodal balance at bus {b} is off by {inj + el:.4f} MW")
            break


def main_xwards():
    """several participating xwards (table order not ascending in the bus, one out of service), elements next to an xward, q limits"""
    fails = []

    def base(xwards, extra=None, oos=()):
        net = pp.create_empty_network()
        b = pp.create_buses(net, 5, 110.)
        pp.create_ext_grid(net, b[0], vm_pu=1.01, slack_weight=1.)
        pp.create_gen(net, b[1], p_mw=30., vm_pu=1.01, slack_weight=2., min_q_mvar=-100., max_q_mvar=100.)
        for bus, w in xwards:
            pp.create_xward(net, b[bus], 5., 1., 0.5, 0.2, 0., 5., 1.0, slack_weight=w)     # r_ohm = 0: no active power in the internal branch
        for x in oos:
            net.xward.at[x, "in_service"] = False
        for f, t in ((0, 1), (1, 2), (2, 3), (3, 4), (4, 0)):
            pp.create_line_from_parameters(net, b[f], b[t], 20., 0.06, 0.3, 10., 0.8)
        pp.create_load(net, b[2], 70., 10.); pp.create_load(net, b[4], 45., 5.)
        if extra:
            extra(net)
        return net
    for tag, net, kw in (
            ("two xwards (buses 3, 4) and an out-of-service one", base([(3, 0.5), (4, 1.5), (2, 1.0)], oos=(2,)), {}),
            ("xwards listed with descending buses (4: 0.5, 3: 3.0)", base([(4, 0.5), (3, 3.0)]), {}),
            ("an sgen of 7 MW at the xward bus", base([(3, 0.7)], extra=lambda n: pp.create_sgen(n, 3, 7., 0.)), {}),
            ("a load with scaling 0.5 at the xward bus", base([(3, 0.7)], extra=lambda n: pp.create_load(n, 3, 10., 1., scaling=0.5)), {}),
            ("enforce_q_lims with the gen at its limit", base([(3, 0.7)], extra=lambda n: n.gen.__setitem__("max_q_mvar", 2.)), dict(enforce_q_lims=True))):
        try:
            pp.runpp(net, distributed_slack=True, tolerance_mva=1e-9, **kw)
        except Exception as e:
            fails.append(f"{tag}: runpp(distributed_slack=True) raised {type(e).__name__}: {str(e)[:80]}")
            continue
        _ratios(net, tag, fails)
    for f in fails:
        print("REPRODUCED:", f)
    if not fails:
        print("not reproduced: xwards take their share of the balancing power")
    sys.exit(1 if fails else 0)


if __name__ == "__main__":
    main()
