"""Native replay for C07: NaN results exactly at unsupplied / out-of-service buses.  exit 1 = reproduced."""
import sys
import numpy as np
import pandapower as pp
import pandapower.topology as top


def nets():
    L = lambda net, f, t, **k: pp.create_line_from_parameters(net, f, t, 2., .12, .11, 250., .6, **k)
    # (1) feeder, spare out-of-service line created first, last bus out of service
    net = pp.create_empty_network(); b = pp.create_buses(net, 5, 20.)
    pp.create_ext_grid(net, b[0]); L(net, b[0], b[1], in_service=False)
    for f, t in ((0, 1), (1, 2), (2, 3), (3, 4)):
        L(net, b[f], b[t])
    for k in (1, 2, 3, 4):
        pp.create_load(net, b[k], 1., .2)
    net.bus.at[b[4], "in_service"] = False
    yield "out-of-service bus at the end of a feeder, spare out-of-service line first", net
    # (2) island behind an open switch
    net = pp.create_empty_network(); b = pp.create_buses(net, 5, 20.)
    pp.create_ext_grid(net, b[0])
    for f, t in ((0, 1), (1, 2), (2, 3), (3, 4)):
        L(net, b[f], b[t])
    pp.create_switch(net, b[2], 2, "l", closed=False)
    pp.create_load(net, b[2], 1., .2); pp.create_load(net, b[4], 1., .2); pp.create_sgen(net, b[3], .5)
    yield "island behind an open line switch", net
    # (3) island behind an out-of-service line, bus-bus switch inside the island
    net = pp.create_empty_network(); b = pp.create_buses(net, 6, 20.)
    pp.create_ext_grid(net, b[0])
    L(net, b[0], b[1]); L(net, b[1], b[2], in_service=False); L(net, b[2], b[3]); L(net, b[4], b[5])
    pp.create_switch(net, b[3], b[4], "b", closed=True)
    pp.create_load(net, b[1], 1., .2); pp.create_load(net, b[5], 1., .2)
    yield "island behind an out-of-service line", net
    # (4) ext_grid out of service, slack gen elsewhere
    net = pp.create_empty_network(); b = pp.create_buses(net, 4, 20.)
    pp.create_ext_grid(net, b[0], in_service=False); pp.create_gen(net, b[2], 1., slack=True)
    L(net, b[0], b[1]); L(net, b[1], b[2]); L(net, b[2], b[3])
    pp.create_load(net, b[3], 1., .2); pp.create_load(net, b[0], .5, .1)
    yield "out-of-service ext_grid, slack gen", net


def main():
    fails = []
    for name, net in nets():
        pp.runpp(net)
        nan = set(net.res_bus.index[net.res_bus.vm_pu.isna()])
        oos = set(net.bus.index[~net.bus.in_service])
        uns = set(top.unsupplied_buses(net))
        if nan - oos != uns - oos:
            fails.append(f"{name}: in-service buses with NaN voltage {sorted(nan - oos)} differ from topology.unsupplied_buses {sorted(uns - oos)}")
        if not oos <= nan:
            fails.append(f"{name}: out-of-service buses with a voltage result")
        dead = net.load.bus.isin(nan)
        if (net.res_load.p_mw[dead].fillna(0) != 0).any():
            fails.append(f"{name}: loads at unsupplied buses report power")
        if (net.res_load.p_mw[~dead] == 0).any() or net.res_load.p_mw[~dead].isna().any():
            fails.append(f"{name}: loads at supplied buses report no power")
    for f in fails:
        print("REPRODUCED:", f)
    if not fails:
        print("not reproduced: NaN results exactly at unsupplied / out-of-service buses")
    sys.exit(1 if fails else 0)


if __name__ == "__main__":
    main()
