"""Native replay for C07: NaN results exactly at unsupplied / out-of-service buses.  exit 1 = reproduced."""
import sys
import numpy as np
import pandapower as pp
import pandapower.topology as top


def nets():
    L = lambda net, f, t, **k: pp.create_line_from_parameters(net, f, t, 2., .12, .11, 250., .6, **k)
    # (1) feeder, spare out-of-service line created first, last bus out of service
    net = pp.create_empty_network(); b = pp.create_buses(net, 5, 20.)
    pp.create_ext_grid(net, b[0]); L(net, b[0], b[1], in_service=False)
    for f, t in ((0, 1), (1, 2), (2, 3), (3, 4)):
        L(net, b[f], b[t])
    for k in (1, 2, 3, 4):
        pp.create_load(net, b[k], 1., .2)
    net.bus.at[b[4], "in_service"] = False
    yield "out-of-service bus at the end of a feeder, spare out-of-service line first", net
    # (2) island behind an open switch
    net = pp.create_empty_network(); b = pp.create_buses(net, 5, 20.)
    pp.create_ext_grid(net, b[0])
    for f, t in ((0, 1), (1, 2), (2, 3), (3, 4)):
        L(net, b[f], b[t])
    pp.create_switch(net, b[2], 2, "l", closed=False)
    pp.create_load(net, b[2], 1., .2); pp.create_load(net, b[4], 1., .2); pp.create_sgen(net, b[3], .5)
    yield "island behind an open line switch", net
    # (3) island behind an out-of-service line, bus-bus switch inside the island
    net = pp.create_empty_network(); b = pp.create_buses(net, 6, 20.)
    pp.create_ext_grid(net, b[0])
    L(net, b[0], b[1]); L(net, b[1], b[2], in_service=False); L(net, b[2], b[3]); L(net, b[4], b[5])
    pp.create_switch(net, b[3], b[4], "b", closed=True)
    pp.create_load(net, b[1], 1., .2); pp.create_load(net, b[5], 1., .2)
    yield "island behind an out-of-service line", net
    # (4) ext_grid out of service, slack gen elsewhere
    net = pp.create_empty_network(); b = pp.create_buses(net, 4, 20.)
    pp.create_ext_grid(net, b[0], in_service=False); pp.create_gen(net, b[2], 1., slack=True)
    L(net, b[0], b[1]); L(net, b[1], b[2]); L(net, b[2], b[3])
    pp.create_load(net, b[3], 1., .2); pp.create_load(net, b[0], .5, .1)
    yield "out-of-service ext_grid, slack gen", net


def main():
    fails = []
    for name, net in nets():
        pp.runpp(net)
        nan = set(net.res_bus.index[net.res_bus.vm_pu.isna()])
        oos = set(net.bus.index[~net.bus.in_service])
        uns = set(top.unsupplied_buses(net))
        if nan - oos != uns - oos:
            fails.append(f"{name}: in-service buses with NaN voltage {sorted(nan - oos)} differ from topology.unsupplied_buses {sorted(uns - oos)}")
        if not oos <= nan:
            fails.append(f"{name}: out-of-service buses with a voltage result")
        dead = net.load.bus.isin(nan)
        if (net.res_load.p_mw[dead].fillna(0) != 0).any():
            fails.append(f"{name}: loads at unsupplied buses report power")
        if (net.res_load.p_mw[~dead] == 0).any() or net.res_load.p_mw[~dead].isna().any():
            fails.append(f"{name}: loads at supplied buses report no power")
    for f in fails:
        print("REPRODUCED:", f)
    if not fails:
        print("not reproduced: NaN results exactly at unsupplied / out-of-service buses")
    sys.exit(1 if fails else 0)


def main_more():
    """bounded stand-in: further fixed networks -- a part of the network behind an out-of-service bus (AC and DC), voltage dependent loads at dead
    buses, an out-of-service ext_grid next to a slack gen"""
    fails = []
    # (1) supply only through an out-of-service bus
    def chain():
        net = pp.create_empty_network()
        a = pp.create_bus(net, 110.); b = pp.create_bus(net, 20.); c = pp.create_bus(net, 10.); d = pp.create_bus(net, 110.)
        pp.create_ext_grid(net, a)
        pp.create_line_from_parameters(net, a, d, 10., 0.06, 0.3, 10., 1.)
        pp.create_transformer_from_parameters(net, a, b, 25., 110., 20., 0.4, 10., 10., 0.05)
        pp.create_transformer_from_parameters(net, b, c, 10., 20., 10., 0.5, 6., 5., 0.1)
        pp.create_load(net, c, 3., 1.); pp.create_load(net, d, 10., 2.)
        net.bus.at[b, "in_service"] = False
        return net, (a, b, c, d)
    for name, run in (("rundcpp", pp.rundcpp), ("runpp", pp.runpp)):
        net, (a, b, c, d) = chain()
        try:
            run(net)
        except Exception as e:
            if "Converge" in type(e).__name__:
                fails.append(f"{name}: a network with a part that is only connected through an out-of-service bus does not converge ({type(e).__name__})")
            else:
                fails.append(f"{name}: {type(e).__name__}: {str(e)[:80]}")
            continue
        vm = net.res_bus.vm_pu
        if not np.isnan(vm.at[c]):
            fails.append(f"{name}: bus {c} is only connected through the out-of-service bus {b} (topology.unsupplied_buses: "
                         f"{sorted(top.unsupplied_buses(net))}) but reports vm_pu = {vm.at[c]}")
        if np.isnan(vm.at[d]) or np.isnan(net.res_bus.va_degree.at[d]) or np.isnan(net.res_ext_grid.p_mw.at[0]):
            fails.append(f"{name}: supplied bus {d} / the ext_grid report NaN (va {net.res_bus.va_degree.at[d]}, slack p {net.res_ext_grid.p_mw.at[0]})")
    # (2) voltage dependent loads: loads at dead buses report zero
    net = pp.create_empty_network()
    b = pp.create_buses(net, 4, 20.)
    pp.create_ext_grid(net, b[0])
    pp.create_line_from_parameters(net, b[0], b[1], 3., 0.12, 0.11, 250., 0.6)
    pp.create_line_from_parameters(net, b[1], b[2], 3., 0.12, 0.11, 250., 0.6, in_service=False)
    pp.create_load(net, b[1], 2., .5, const_z_p_percent=50., const_z_q_percent=50.)
    pp.create_load(net, b[2], 1., .2); pp.create_load(net, b[3], 1.5, .3, const_i_p_percent=30., const_i_q_percent=30.)
    net.bus.at[b[3], "in_service"] = False
    pp.runpp(net)
    bad = net.res_load[["p_mw", "q_mvar"]].loc[[1, 2]]
    if bad.isna().any().any() or (bad != 0).any().any():
        fails.append(f"voltage dependent loads in the net: the loads at the unsupplied bus {b[2]} and the out-of-service bus {b[3]} report "
                     f"{bad.values.tolist()} instead of zero")
    if net.res_bus.p_mw.loc[[b[2], b[3]]].notna().any() and (net.res_bus.p_mw.loc[[b[2], b[3]]].fillna(0) != 0).any():
        fails.append("bus results at dead buses are not NaN / zero")
    # (3) an out-of-service ext_grid next to a slack gen
    for name, run in (("runpp", pp.runpp), ("rundcpp", pp.rundcpp)):
        net = pp.create_empty_network()
        b = pp.create_buses(net, 3, 110.)
        pp.create_ext_grid(net, b[0], in_service=False)
        pp.create_gen(net, b[1], p_mw=10., vm_pu=1.01, slack=True)
        for f, t in ((0, 1), (1, 2)):
            pp.create_line_from_parameters(net, b[f], b[t], 10., 0.06, 0.3, 10., 1.)
        pp.create_load(net, b[2], 20., 5.)
        run(net)
        v = net.res_ext_grid.p_mw.at[0]
        if np.isnan(v) or v != 0:
            fails.append(f"{name}: the out-of-service ext_grid reports p_mw = {v} instead of zero")
    for f in fails:
        print("REPRODUCED:", f)
    if not fails:
        print("not reproduced: NaN results exactly at unsupplied / out-of-service buses, zero power for elements there")
    sys.exit(1 if fails else 0)


if __name__ == "__main__":
    main()
