"""Native replay for C33: the real DERController._saturate on grids of operating points and all built-in PQV areas."""
import sys
import itertools
import numpy as np
import pandas as pd
import pandapower as pp
from pandapower.control.controller.DERController import DERController
from pandapower.control.controller import DERController as M

TOL = 1e-9


def main():
    net = pp.create_empty_network()
    pp.create_buses(net, 2, vn_kv=20.)
    pp.create_ext_grid(net, 0)
    pp.create_line(net, 0, 1, 1., "NAYY 4x50 SE")
    n = 0
    ps = np.linspace(0., 1.2, 13)
    qs = np.linspace(-1.2, 1.2, 13)
    vms = np.array([0.85, 0.88, 0.9, 0.92, 0.94, 0.97, 1.0, 1.03, 1.06, 1.09, 1.1, 1.12, 1.15])
    for _ in qs:
        pp.create_sgen(net, 1, p_mw=1., sn_mva=2.)
    area_names = [a for a in dir(M) if a.startswith("PQVArea") and a not in ("PQVAreaPOLYGON",)]
    areas = [None]
    for a in area_names:
        try:
            areas.append(getattr(M, a)())
        except Exception:
            pass
    fails = []
    skipped = 0
    for area in areas:
        for sat in (None, 2.0, 1.5):
            if area is None and sat is None:
                continue
            for q_prio in (True, False):
                kw = {} if sat is None else {"saturate_sn_mva": sat}
                try:
                    c = DERController(net, net.sgen.index, pqv_area=area, q_prio=q_prio, **kw)
                except Exception as e:
                    print("skip", area, sat, type(e).__name__, e)
                    continue
                if sat is None:
                    c.saturate_sn_mva_activated = False
                for p0, vm0 in itertools.product(ps, vms):
                    p = pd.Series(np.full(len(qs), p0), index=net.sgen.index)
                    q = pd.Series(qs.copy(), index=net.sgen.index)
                    vm = pd.Series(np.full(len(qs), vm0), index=net.sgen.index)
                    try:
                        p2, q2 = c._saturate(p.copy(), q.copy(), vm)
                    except ValueError:
                        skipped += 1
                        continue
                    p2, q2 = np.asarray(p2, float), np.asarray(q2, float)
                    n += len(qs)
                    if sat is not None:
                        s_pu = sat / 2.0
                        bad = np.flatnonzero(p2 ** 2 + q2 ** 2 > s_pu ** 2 * (1 + 1e-9) + TOL)
                        if len(bad):
                            k = bad[0]
                            fails.append(f"area={area} saturate_sn_mva={sat} (={s_pu} pu) q_prio={q_prio}: p={p0:.3f} q={qs[k]:.3f} vm={vm0:.3f} "
                                         f"-> p'={p2[k]:.4f} q'={q2[k]:.4f}, S'={np.hypot(p2[k], q2[k]):.4f} pu")
                    else:
                        try:
                            mm = np.asarray(area.q_flexibility(p_pu=pd.Series(p2, index=net.sgen.index), vm_pu=vm), float)
                        except ValueError:
                            continue
                        bad = np.flatnonzero((q2 < mm[:, 0] - 1e-9) | (q2 > mm[:, 1] + 1e-9))
                        if len(bad):
                            k = bad[0]
                            fails.append(f"area={area} only: p={p0:.3f} vm={vm0:.3f}: q'={q2[k]:.4f} outside [{mm[k,0]:.4f}, {mm[k,1]:.4f}]")
                    if fails:
                        break
                net.controller.drop(net.controller.index, inplace=True)
                if fails:
                    break
            if fails:
                break
        if fails:
            break
    if fails:
        print("VIOLATION REPRODUCED:", fails[0])
        sys.exit(1)
    print(f"not reproduced ({n} operating points, {skipped} batches rejected by the area itself)")
    sys.exit(0)


def main_more():
    """whole controller runs with integer / float constant-Q models; the built-in Q(V) areas at their own break points"""
    import logging
    logging.disable(logging.CRITICAL)
    from pandapower.control.controller.DERController import QModelConstQ
    fails = []
    # (1) run_control with a constant Q set point: the reactive power written to the sgen lies inside the area at the solved voltage
    for q_set, vm_ext in ((0, 0.90), (0., 0.90), (0, 1.14), (1, 0.90), (-1, 1.14), (0.2, 1.0), (-1., 1.14)):
        net = pp.create_empty_network()
        b0 = pp.create_bus(net, 110.); b1 = pp.create_bus(net, 110.)
        pp.create_ext_grid(net, b0, vm_pu=vm_ext)
        pp.create_line_from_parameters(net, b0, b1, 1., 0.1, 0.3, 10., 1.)
        pp.create_sgen(net, b1, p_mw=10., q_mvar=0., sn_mva=20.)
        area = M.PQVArea4120V2()
        DERController(net, [0], q_model=QModelConstQ(q_set), pqv_area=area)
        pp.runpp(net, run_control=True)
        p_pu, q_pu, vm = net.sgen.p_mw.at[0] / 20., net.sgen.q_mvar.at[0] / 20., net.res_bus.vm_pu.at[b1]
        qmin, qmax = area.q_flexibility(pd.Series([p_pu]), pd.Series([vm]))[0]
        if not (qmin - 1e-4 <= q_pu <= qmax + 1e-4):
            fails.append(f"DERController(q_model=QModelConstQ({q_set!r}), pqv_area=PQVArea4120V2()) at vm = {vm:.4f}: q = {q_pu:.4f} p.u. is outside "
                         f"the area's reactive flexibility [{qmin:.4f}, {qmax:.4f}]")
    # (2) a Q(V) characteristic is piecewise continuous: at each of its own break points the interval equals the limit from one side
    for name in [a for a in dir(M) if a.startswith("PQVArea") and a != "PQVAreaPOLYGON"]:
        try:
            area = getattr(M, name)()
        except Exception:
            continue
        qv = getattr(area, "qv_area", None)
        if qv is None:
            continue
        pts = sorted({float(getattr(qv, a)) for a in ("min_vm_pu", "max_vm_pu") if hasattr(qv, a)} |
                     {float(qv.min_vm_pu + qv.delta_vm_pu), float(qv.max_vm_pu - qv.delta_vm_pu)} if hasattr(qv, "delta_vm_pu") else set())
        for v in pts:
            vals = [np.asarray(qv.q_flexibility(pd.Series([0.5]), pd.Series([x])), float)[0] for x in (v - 1e-9, v, v + 1e-9)]
            if not (np.allclose(vals[1], vals[0], atol=1e-6) or np.allclose(vals[1], vals[2], atol=1e-6)):
                fails.append(f"{name}: Q(V) flexibility at its break point vm = {v:.6f} is {np.round(vals[1], 4).tolist()}, just below it is "
                             f"{np.round(vals[0], 4).tolist()} and just above {np.round(vals[2], 4).tolist()}")
    for f in fails:
        print("REPRODUCED:", f)
    if not fails:
        print("not reproduced: constant-Q runs stay inside the area; Q(V) areas have no isolated values at their break points")
    sys.exit(1 if fails else 0)


if __name__ == "__main__":
    main()
