"""Native replay for C27: group membership after detach / drop operations equals a set model.  exit 1 = reproduced."""
import sys
import numpy as np
import pandapower as pp
import pandapower.networks as nw


def members(net, gi):
    out = {}
    if gi not in net.group.index:
        return out
    for _, r in net.group.loc[[gi]].iterrows():
        out[r.element_type] = set(r.element_index)
    return out


def _net():
    net = nw.example_multivoltage()
    for et in ("load", "sgen", "line"):
        net[et]["name"] = [f"{et}_{i}" for i in net[et].index]
    g0 = pp.create_group(net, ["load", "sgen"], [list(net.load.index[:4]), list(net.sgen.index[:3])], name="by index")
    g1 = pp.create_group(net, ["load", "line"], [list(net.load.name[1:5]), list(net.line.name[:3])], name="by name", reference_columns="name")
    g2 = pp.create_group(net, ["sgen"], [[net.sgen.name.iloc[0]]], name="single", reference_columns="name")
    return net, g0, g1, g2


def main():
    fails = []
    # (1) detach_from_groups
    net, g0, g1, g2 = _net()
    model0, model1 = members(net, g0), members(net, g1)
    drop = list(net.load.index[1:3])
    names = set(net.load.name.loc[drop])
    pp.detach_from_groups(net, "load", drop)
    model0["load"] -= set(drop); model1["load"] -= names
    if members(net, g0) != model0 or members(net, g1) != model1:
        fails.append(f"detach_from_groups(load, {drop}): members {members(net, g0)} / {members(net, g1)} differ from the set model")
    # (2) cascade drop through drop_buses
    net, g0, g1, g2 = _net()
    model0, model1 = members(net, g0), members(net, g1)
    bus = net.load.bus.loc[net.load.index[1]]
    gone_idx = set(net.load.index[net.load.bus == bus]); gone_names = set(net.load.name[net.load.bus == bus])
    gone_sg_idx = set(net.sgen.index[net.sgen.bus == bus]); gone_sg_names = set(net.sgen.name[net.sgen.bus == bus])
    lines_gone = set(net.line.name[(net.line.from_bus == bus) | (net.line.to_bus == bus)])
    pp.drop_buses(net, [bus])
    model0["load"] -= gone_idx; model0["sgen"] -= gone_sg_idx; model1["load"] -= gone_names; model1["line"] -= lines_gone
    model0 = {k: v for k, v in model0.items() if v}; model1 = {k: v for k, v in model1.items() if v}
    if members(net, g0) != model0:
        fails.append(f"drop_buses([{bus}]): index group members {members(net, g0)} != set model {model0}")
    if members(net, g1) != model1:
        fails.append(f"drop_buses([{bus}]): name-referenced group members {members(net, g1)} != set model {model1}")
    # (3) a name-referenced group loses its last member -> the row disappears
    net, g0, g1, g2 = _net()
    sg = net.sgen.index[0]
    pp.drop_buses(net, [net.sgen.bus.at[sg]])
    if g2 in net.group.index:
        fails.append(f"group {g2} still has a row with members {members(net, g2)} after its only member was dropped")
    for f in fails:
        print("REPRODUCED:", f)
    if not fails:
        print("not reproduced: group membership follows the set model")
    sys.exit(1 if fails else 0)


if __name__ == "__main__":
    main()
