"""Native replay for C27: group membership after detach / drop operations equals a set model.  exit 1 = reproduced."""
import sys
import numpy as np
import pandapower as pp
import pandapower.networks as nw


def members(net, gi):
    out = {}
    if gi not in net.group.index:
        return out
    for _, r in net.group.loc[[gi]].iterrows():
        out[r.element_type] = set(r.element_index)
    return out


def _net():
    net = nw.example_multivoltage()
    for et in ("load", "sgen", "line"):
        net[et]["name"] = [f"{et}_{i}" for i in net[et].index]
    g0 = pp.create_group(net, ["load", "sgen"], [list(net.load.index[:4]), list(net.sgen.index[:3])], name="by index")
    g1 = pp.create_group(net, ["load", "line"], [list(net.load.name[1:5]), list(net.line.name[:3])], name="by name", reference_columns="name")
    g2 = pp.create_group(net, ["sgen"], [[net.sgen.name.iloc[0]]], name="single", reference_columns="name")
    return net, g0, g1, g2


def main():
    fails = []
    # (1) detach_from_groups
    net, g0, g1, g2 = _net()
    model0, model1 = members(net, g0), members(net, g1)
    drop = list(net.load.index[1:3])
    names = set(net.load.name.loc[drop])
    pp.detach_from_groups(net, "load", drop)
    model0["load"] -= set(drop); model1["load"] -= names
    if members(net, g0) != model0 or members(net, g1) != model1:
        fails.append(f"detach_from_groups(load, {drop}): members {members(net, g0)} / {members(net, g1)} differ from the set model")
    # (2) cascade drop through drop_buses
    net, g0, g1, g2 = _net()
    model0, model1 = members(net, g0), members(net, g1)
    bus = net.load.bus.loc[net.load.index[1]]
    gone_idx = set(net.load.index[net.load.bus == bus]); gone_names = set(net.load.name[net.load.bus == bus])
    gone_sg_idx = set(net.sgen.index[net.sgen.bus == bus]); gone_sg_names = set(net.sgen.name[net.sgen.bus == bus])
    lines_gone = set(net.line.name[(net.line.from_bus == bus) | (net.line.to_bus == bus)])
    pp.drop_buses(net, [bus])
    model0["load"] -= gone_idx; model0["sgen"] -= gone_sg_idx; model1["load"] -= gone_names; model1["line"] -= lines_gone
    model0 = {k: v for k, v in model0.items() if v}; model1 = {k: v for k, v in model1.items() if v}
    if members(net, g0) != model0:
        fails.append(f"drop_buses([{bus}]): index group members {members(net, g0)} != set model {model0}")
    if members(net, g1) != model1:
        fails.append(f"drop_buses([{bus}]): name-referenced group members {members(net, g1)} != set model {model1}")
    # (3) a name-referenced group loses its last member -> the row disappears
    net, g0, g1, g2 = _net()
    sg = net.sgen.index[0]
    pp.drop_buses(net, [net.sgen.bus.at[sg]])
    if g2 in net.group.index:
        fails.append(f"group {g2} still has a row with members {members(net, g2)} after its only member was dropped")
    for f in fails:
        print("REPRODUCED:", f)
    if not fails:
        print("not reproduced: group membership follows the set model")
    sys.exit(1 if fails else 0)


def main_more():
    """bounded stand-in: further group operations on small fixed networks against a set model -- attaching to a group that is not the first
    row of net.group, the cascade of drop_buses over switches and measurements, re-indexing a part of the elements"""
    import warnings
    warnings.filterwarnings("ignore")
    fails = []
    # (1) attach_to_group to the second group (its reference_column is stored as NaN)
    net = pp.create_empty_network()
    pp.create_buses(net, 3, 20.)
    for b in range(3):
        pp.create_load(net, b, 0.1)
    g0 = pp.create_group(net, "load", [[0]], name="g0")
    g1 = pp.create_group(net, "load", [[1]], name="g1")
    cols = list(net.load.columns)
    pp.attach_to_group(net, g1, "load", [[2]])
    got = members(net, g1).get("load")
    if got != {1, 2}:
        fails.append(f"attach_to_group(net, {g1}, 'load', [[2]]): members {got}, set model {{1, 2}}")
    if list(net.load.columns) != cols:
        fails.append(f"attach_to_group added columns {[c for c in net.load.columns if c not in cols]} to net.load")
    # (2) drop_buses: switches and measurements at the bus leave their groups
    net = pp.create_empty_network()
    b = pp.create_buses(net, 4, 20.)
    for f, t in ((0, 1), (1, 2), (2, 3)):
        pp.create_line_from_parameters(net, b[f], b[t], 1., 0.1, 0.1, 10., 0.4)
    sw = [pp.create_switch(net, b[1], 0, "l"), pp.create_switch(net, b[2], 1, "l"), pp.create_switch(net, b[2], 2, "l"), pp.create_switch(net, b[3], 2, "l")]
    ms = [pp.create_measurement(net, "v", "bus", 1., 0.01, b[2]), pp.create_measurement(net, "v", "bus", 1., 0.01, b[1])]
    ga = pp.create_group(net, ["switch", "measurement"], [sw, ms], name="A")
    gb = pp.create_group(net, ["switch"], [[sw[2]]], name="B")
    pp.drop_buses(net, [b[2]])
    want_sw = set(net.switch.index) & set(sw)
    want_ms = set(net.measurement.index) & set(ms)
    got_a = members(net, ga)
    if got_a.get("switch", set()) != want_sw:
        fails.append(f"drop_buses: group A lists switches {sorted(got_a.get('switch', set()))}, the switches left in the net are {sorted(want_sw)}")
    if got_a.get("measurement", set()) != want_ms:
        fails.append(f"drop_buses: group A lists measurements {sorted(got_a.get('measurement', set()))}, left in the net are {sorted(want_ms)}")
    if gb in net.group.index:
        fails.append(f"drop_buses: group B still has a row ({members(net, gb)}) although its only member was dropped")
    # (3) reindex_elements for a part of the elements
    for kw, label in ((dict(lookup={0: 10}), "lookup={0: 10}"), (dict(lookup={0: 10, 1: 3, 2: 2, 3: 1}, old_indices=[0]), "old_indices=[0] with a longer lookup")):
        net = pp.create_empty_network()
        pp.create_buses(net, 4, 20.)
        for k in range(4):
            pp.create_load(net, k, 0.1, name=f"L{k}")
        g = pp.create_group(net, "load", [[0, 1, 2]], name="g")
        try:
            pp.reindex_elements(net, "load", **kw)
            err = ""
        except Exception as e:
            err = f" (raised {type(e).__name__}: {e})"
        mem = members(net, g).get("load", set())
        names = {net.load.name.at[i] for i in mem if i in net.load.index}
        if err or names != {"L0", "L1", "L2"} or not mem <= set(net.load.index):
            fails.append(f"reindex_elements(net, 'load', {label}){err}: net.load.index = {net.load.index.tolist()}, group members {sorted(mem)} "
                         f"= loads {sorted(names)}, set model L0, L1, L2")
    for f in fails:
        print("REPRODUCED:", f)
    if not fails:
        print("not reproduced: group membership follows the set model")
    sys.exit(1 if fails else 0)


if __name__ == "__main__":
    main()
