"""Native replay for C03: energy balance of AC / DC power flows on passive networks (exit 1 = violation reproduced)."""
import sys
import numpy as np
import pandapower as pp
import pandapower.networks as nw


def _nets():
    for shared in (False, True):
        for n_ext in (1, 2):
            net = pp.create_empty_network(sn_mva=50.)
            b = pp.create_buses(net, 6, 110.)
            for _ in range(n_ext):
                pp.create_ext_grid(net, b[0], vm_pu=1.02)
            if shared:
                pp.create_gen(net, b[0], p_mw=15., vm_pu=1.02)
                pp.create_gen(net, b[0], p_mw=7., vm_pu=1.02)
            pp.create_gen(net, b[3], p_mw=12., vm_pu=1.0)
            for f, t, L in [(0, 1, 8.), (1, 2, 12.), (2, 3, 5.), (3, 4, 9.), (4, 0, 20.), (1, 4, 7.)]:
                pp.create_line_from_parameters(net, b[f], b[t], length_km=L, r_ohm_per_km=0.08, x_ohm_per_km=0.33, c_nf_per_km=9.,
                                               g_us_per_km=0.5, max_i_ka=0.5)
            pp.create_transformer_from_parameters(net, b[2], b[5], sn_mva=40., vn_hv_kv=110., vn_lv_kv=110., vkr_percent=0.4,
                                                  vk_percent=11., pfe_kw=25., i0_percent=0.06, shift_degree=5.)
            pp.create_impedance(net, b[5], b[4], rft_pu=0.01, xft_pu=0.04, sn_mva=40.)
            pp.create_load(net, b[1], 30., 4.); pp.create_load(net, b[5], 18., 3.); pp.create_load(net, b[4], 21., 6.)
            pp.create_shunt(net, b[2], q_mvar=-3., p_mw=0.4)
            yield f"meshed[shared_slack_bus={shared},ext_grids={n_ext}]", net
    yield "example_multivoltage", nw.example_multivoltage()
    yield "case9", nw.case9()


def _gen(net):
    s = 0.
    for t in ("res_ext_grid", "res_gen", "res_sgen", "res_dcline"):
        if t in net and len(net[t]) and "p_mw" in net[t]:
            s += net[t].p_mw.sum()
    if "res_dcline" in net and len(net.res_dcline):
        s -= net.res_dcline.p_mw.sum() + (net.res_dcline.p_from_mw.sum() + net.res_dcline.p_to_mw.sum())
    return s


def _cons(net):
    s = 0.
    for t in ("res_load", "res_shunt", "res_ward", "res_xward", "res_motor", "res_storage"):
        if t in net and len(net[t]):
            s += net[t].p_mw.sum()
    return s


BR = (("res_line", "p_from_mw", "p_to_mw"), ("res_trafo", "p_hv_mw", "p_lv_mw"), ("res_impedance", "p_from_mw", "p_to_mw"))


def main_dc():
    fails = []
    for name, net in _nets():
        pp.rundcpp(net)
        for t, a, b in BR:
            if len(net[t]):
                if not np.allclose(net[t][a].values, -net[t][b].values, atol=1e-9):
                    fails.append(f"{name}: DC {t}.{a} != -{t}.{b}")
                if not np.allclose(np.nan_to_num(net[t].pl_mw.values), 0., atol=1e-9):
                    fails.append(f"{name}: DC {t}.pl_mw != 0")
        if len(net.res_trafo3w):
            r = net.res_trafo3w
            if not np.allclose(r.p_hv_mw + r.p_mv_mw + r.p_lv_mw, 0., atol=1e-9):
                fails.append(f"{name}: DC trafo3w terminal powers do not add up to 0")
        g, c = _gen(net), _cons(net)
        if not np.isclose(g, c, atol=1e-6):
            fails.append(f"{name}: DC total generation {g:.6f} MW != total consumption {c:.6f} MW")
    return _report(fails)


def main_losses():
    fails = []
    for name, net in _nets():
        pp.runpp(net, calculate_voltage_angles=True)
        tot = 0.
        for t, a, b in BR:
            if len(net[t]):
                pl = net[t].pl_mw.values
                if not np.allclose(pl, net[t][a].values + net[t][b].values, atol=1e-9):
                    fails.append(f"{name}: AC {t}.pl_mw != {a} + {b}")
                if (pl < -1e-9).any():
                    fails.append(f"{name}: AC negative losses in {t}: {pl.min():.3e} MW")
                tot += pl.sum()
        if len(net.res_trafo3w):
            r = net.res_trafo3w
            if not np.allclose(r.pl_mw, r.p_hv_mw + r.p_mv_mw + r.p_lv_mw, atol=1e-9):
                fails.append(f"{name}: AC trafo3w pl_mw != sum of terminal powers")
            if (r.pl_mw < -1e-9).any():
                fails.append(f"{name}: AC negative losses in trafo3w")
            tot += r.pl_mw.sum()
        g, c = _gen(net), _cons(net)
        xw = net.res_xward.p_mw.sum() if len(net.res_xward) else 0.
        if not len(net.xward) and not np.isclose(g - c, tot, atol=1e-5):
            fails.append(f"{name}: AC generation - consumption = {g - c:.6f} MW but branch losses = {tot:.6f} MW")
    return _report(fails)


def main_single_slack():
    """networks with one machine (candidates for the fast result routine) and shunt-type elements"""
    fails = []
    for name, adder in (
            ("resistive shunt only", lambda n, b: (pp.create_shunt(n, b[3], q_mvar=0., p_mw=1.2),)),
            ("ward with resistive constant-impedance part only", lambda n, b: (pp.create_ward(n, b[2], 0.2, 0.1, 0.9, 0.),)),
            ("capacitor and reactor of equal rating", lambda n, b: (pp.create_shunt(n, b[1], q_mvar=-1.5, p_mw=0.), pp.create_shunt(n, b[3], q_mvar=1.5, p_mw=0.))),
            ("no shunt", lambda n, b: ())):
        net = pp.create_empty_network()
        b = pp.create_buses(net, 4, 20.)
        pp.create_ext_grid(net, b[0], vm_pu=1.03)
        for f, t in ((0, 1), (1, 2), (2, 3)):
            pp.create_line_from_parameters(net, b[f], b[t], 6., 0.12, 0.11, 250., 0.6)
        pp.create_load(net, b[3], 3., 1.); pp.create_load(net, b[2], 2., .5)
        adder(net, b)
        for kw in (dict(), dict(numba=False)):
            pp.runpp(net, **kw)
            for q, fr, to in (("p_mw", "p_from_mw", "p_to_mw"), ("q_mvar", "q_from_mvar", "q_to_mvar")):
                g = net.res_ext_grid[q].sum()
                c = sum(net["res_" + t][q].sum() for t in ("load", "shunt", "ward"))
                loss = (net.res_line[fr] + net.res_line[to]).sum()
                if not np.isclose(g - c, loss, atol=1e-5):
                    fails.append(f"{name} {kw}: generation - consumption = {g - c:.6f} but the branches lose {loss:.6f} ({q})")
    return _report(fails)


def main_algorithms():
    """solvers other than Newton-Raphson: what is reported as converged balances (generation - consumption = branch losses)"""
    fails = []
    # (1) voltage dependent load with Gauss-Seidel / fast-decoupled
    for alg in ("nr", "iwamoto_nr", "gs", "fdbx", "fdxb"):
        for col in ("const_i_p_percent", "const_z_p_percent"):
            net = pp.create_empty_network()
            b = pp.create_buses(net, 3, 20.)
            pp.create_ext_grid(net, b[0], vm_pu=1.02)
            pp.create_line_from_parameters(net, b[0], b[1], 6., 0.2, 0.3, 10., 0.4); pp.create_line_from_parameters(net, b[1], b[2], 6., 0.2, 0.3, 10., 0.4)
            pp.create_load(net, b[2], 4., 1., **{col: 50.}); pp.create_load(net, b[1], 1., .2)
            try:
                pp.runpp(net, algorithm=alg, max_iteration=1000 if alg == "gs" else 100)
            except Exception as e:
                print(f"note: algorithm={alg}: {type(e).__name__}")
                continue
            g, c = net.res_ext_grid.p_mw.sum(), net.res_load.p_mw.sum()
            loss = net.res_line.pl_mw.sum()
            if abs(g - c - loss) > 1e-4:
                fails.append(f"algorithm={alg}, load with {col} = 50: converged, generation - consumption = {g - c:.6f} MW but the lines lose "
                             f"{loss:.6f} MW")
    # (2) backward / forward sweep with a phase shifter inside a mesh
    for tap in (0, 3):
        net = pp.create_empty_network()
        b0 = pp.create_bus(net, 110.); b1 = pp.create_bus(net, 20.); b2 = pp.create_bus(net, 20.)
        pp.create_ext_grid(net, b0, vm_pu=1.0)
        for lvb, tap_pos in ((b1, 0), (b2, tap)):
            pp.create_transformer_from_parameters(net, b0, lvb, sn_mva=40., vn_hv_kv=110., vn_lv_kv=20., vkr_percent=.3, vk_percent=10., pfe_kw=20.,
                                                  i0_percent=.1, tap_side="hv", tap_neutral=0, tap_min=-9, tap_max=9, tap_step_percent=0.,
                                                  tap_step_degree=1., tap_pos=tap_pos, tap_changer_type="Ideal")
        pp.create_line_from_parameters(net, b1, b2, 5., 0.2, 0.3, 10., 0.4)
        pp.create_load(net, b2, 5., 1.); pp.create_load(net, b1, 3., 1.)
        try:
            pp.runpp(net, algorithm="bfsw", calculate_voltage_angles=True, tolerance_mva=1e-8, max_iteration=1000)
        except pp.LoadflowNotConverged:
            continue
        g, c = net.res_ext_grid.p_mw.sum(), net.res_load.p_mw.sum()
        loss = net.res_line.pl_mw.sum() + net.res_trafo.pl_mw.sum()
        if abs(g - c - loss) > 1e-5:
            fails.append(f"algorithm=bfsw, two transformers and a line in a mesh, ideal phase shifter at {tap} degree: converged, generation - "
                         f"consumption = {g - c:.6f} MW but the branches lose {loss:.6f} MW")
    return _report(fails)


def _report(fails):
    for f in fails:
        print("REPRODUCED:", f)
    if not fails:
        print("not reproduced: energy balance holds on all replay networks")
    sys.exit(1 if fails else 0)


if __name__ == "__main__":
    {"dc": main_dc, "losses": main_losses, "single_slack": main_single_slack}[sys.argv[1] if len(sys.argv) > 1 else "dc"]()
