"""Native replay for C23: line -> impedance -> line replacement keeps the power flow results.  exit 1 = reproduced."""
import sys
import copy
import numpy as np
import pandapower as pp


def _net():
    net = pp.create_empty_network()
    b = pp.create_buses(net, 5, 20.)
    pp.create_ext_grid(net, b[0], vm_pu=1.01)
    # line indices are not their positions
    pp.create_line_from_parameters(net, b[0], b[1], 2., .12, .11, 0., .6, index=5)
    pp.create_line_from_parameters(net, b[1], b[2], 7., .20, .15, 0., .6, parallel=2, index=9)
    pp.create_line_from_parameters(net, b[2], b[3], 1., .12, .11, 0., .6, index=2)
    pp.create_line_from_parameters(net, b[3], b[4], 3., .32, .09, 0., .4, index=0)
    pp.create_load(net, b[2], 2., .5); pp.create_load(net, b[4], 1.5, .4); pp.create_load(net, b[3], 1., .2)
    return net


def main():
    fails = []
    ref = _net()
    pp.runpp(ref)
    for idx in ([5, 9], [0, 2, 5, 9], [9]):
        net = _net()
        try:
            new = pp.replace_line_by_impedance(net, idx)
            pp.runpp(net)
        except Exception as e:
            fails.append(f"replace_line_by_impedance({idx}): {type(e).__name__}: {str(e)[:80]}")
            continue
        d = np.max(np.abs(net.res_bus.vm_pu.values - ref.res_bus.vm_pu.values))
        if d > 1e-8:
            fails.append(f"replace_line_by_impedance({idx}): bus voltages change by up to {d:.2e} pu")
        try:
            pp.replace_impedance_by_line(net, new)
            pp.runpp(net)
            d = np.max(np.abs(net.res_bus.vm_pu.values - ref.res_bus.vm_pu.values))
            if d > 1e-8:
                fails.append(f"line -> impedance -> line round trip ({idx}): bus voltages change by up to {d:.2e} pu")
        except Exception as e:
            fails.append(f"replace_impedance_by_line after replacing {idx}: {type(e).__name__}: {str(e)[:80]}")
    # xward -> internal elements with a per-unit base other than 1; subnet of a 60 Hz network
    for s_ in (1., 10.):
        net = pp.create_empty_network(sn_mva=s_, f_hz=60.)
        b = pp.create_buses(net, 4, 20.)
        pp.create_ext_grid(net, b[0])
        for f_, t_ in ((0, 1), (1, 2), (2, 3)):
            pp.create_line_from_parameters(net, b[f_], b[t_], 4., .12, .11, 250., .6)
        pp.create_load(net, b[3], 2., .5)
        pp.create_xward(net, b[1], 1., .3, .2, .1, 2., 4., 1.01)
        ref2 = copy.deepcopy(net); pp.runpp(ref2)
        sub = pp.select_subnet(net, list(b))
        pp.runpp(sub)
        d = np.max(np.abs(sub.res_bus.vm_pu.values - ref2.res_bus.vm_pu.values))
        if d > 1e-8:
            fails.append(f"select_subnet of all buses (f_hz=60, sn_mva={s_}): bus voltages change by up to {d:.2e} pu")
        pp.replace_xward_by_internal_elements(net); pp.runpp(net)
        d = np.max(np.abs(net.res_bus.vm_pu.values[:4] - ref2.res_bus.vm_pu.values))
        if d > 1e-8:
            fails.append(f"replace_xward_by_internal_elements (sn_mva={s_}): bus voltages change by up to {d:.2e} pu")
    for f in fails:
        print("REPRODUCED:", f)
    if not fails:
        print("not reproduced: line <-> impedance replacement keeps the power flow results")
    sys.exit(1 if fails else 0)


def main_inactive():
    """bounded stand-in: result-preserving clean-up functions on a fixed network with energised branches that end at dead buses"""
    fails = []

    def build(dead_as_from):
        net = pp.create_empty_network()
        b = pp.create_buses(net, 6, 20.)
        hv = pp.create_bus(net, 110.)
        pp.create_ext_grid(net, hv, vm_pu=1.02)
        pp.create_transformer_from_parameters(net, hv, b[0], sn_mva=25., vn_hv_kv=110., vn_lv_kv=20., vkr_percent=0.4, vk_percent=10., pfe_kw=10., i0_percent=0.05)
        for f, t in ((0, 1), (1, 2), (2, 3)):
            pp.create_line_from_parameters(net, b[f], b[t], 6., 0.12, 0.11, 260., 0.6)
        # a cable that is energised from b[3] but open at its far end (dead-end bus b[4]): it still draws charging power
        far, near = b[4], b[3]
        fb, tb = (far, near) if dead_as_from else (near, far)
        l = pp.create_line_from_parameters(net, fb, tb, 9., 0.12, 0.11, 300., 0.6)
        pp.create_switch(net, far, l, "l", closed=False)
        # an out-of-service bus with an in-service stub line
        net.bus.at[b[5], "in_service"] = False
        pp.create_line_from_parameters(net, b[5], b[2], 4., 0.12, 0.11, 280., 0.6)
        pp.create_load(net, b[2], 4., 1.); pp.create_load(net, b[3], 2., .5); pp.create_load(net, b[5], 1., .2)
        pp.create_sgen(net, b[1], 1., 0., in_service=False)
        return net
    for dead_as_from in (False, True):
        for name, op in (("drop_inactive_elements", pp.drop_inactive_elements), ("drop_out_of_service_elements", pp.drop_out_of_service_elements)):
            net = build(dead_as_from)
            ref = copy.deepcopy(net); pp.runpp(ref)
            try:
                op(net)
                pp.runpp(net)
            except Exception as e:
                fails.append(f"{name} (dead end is the {'from' if dead_as_from else 'to'} bus): {type(e).__name__}: {str(e)[:80]}")
                continue
            common = [i for i in net.bus.index if i in ref.bus.index and not np.isnan(ref.res_bus.vm_pu.at[i])]
            d = np.max(np.abs(net.res_bus.vm_pu.loc[common].values - ref.res_bus.vm_pu.loc[common].values))
            dq = abs(net.res_ext_grid.q_mvar.sum() - ref.res_ext_grid.q_mvar.sum())
            if d > 1e-8 or dq > 1e-6:
                fails.append(f"{name} (open-ended / stub line with the dead bus as its {'from' if dead_as_from else 'to'} bus): bus voltages change by "
                             f"{d:.2e} pu, slack reactive power by {dq:.4f} Mvar")
    for f in fails:
        print("REPRODUCED:", f)
    if not fails:
        print("not reproduced: dropping inactive elements keeps the power flow results")
    sys.exit(1 if fails else 0)


def main_more():
    """bounded stand-in: further transformations documented as electrically neutral, on fixed networks: an impedance with shunt admittances replaced
    by a line, a subnet with an open switch at a three-winding transformer, dropping inactive elements around a three-winding transformer whose lv
    side is isolated"""
    fails = []
    # (1) impedance with a symmetric shunt part -> line
    net = pp.create_empty_network()
    b = pp.create_buses(net, 3, 110.)
    pp.create_ext_grid(net, b[0], vm_pu=1.02)
    pp.create_impedance(net, b[0], b[1], rft_pu=0.01, xft_pu=0.05, sn_mva=100., gf_pu=0.002, bf_pu=0.09, gt_pu=0.002, bt_pu=0.09)
    pp.create_line_from_parameters(net, b[1], b[2], 20., 0.06, 0.3, 10., 1.)
    pp.create_load(net, b[2], 40., 10.)
    ref = copy.deepcopy(net); pp.runpp(ref)
    try:
        pp.replace_impedance_by_line(net)
        pp.runpp(net)
        d = np.max(np.abs(net.res_bus.vm_pu.values - ref.res_bus.vm_pu.values))
        dq = abs(net.res_ext_grid.q_mvar.sum() - ref.res_ext_grid.q_mvar.sum())
        if len(net.impedance) == 0 and (d > 1e-7 or dq > 1e-5):
            fails.append(f"replace_impedance_by_line (impedance with gf = gt, bf = bt): bus voltages change by {d:.2e} pu, slack reactive power by {dq:.3f} Mvar")
    except Exception as e:
        fails.append(f"replace_impedance_by_line: {type(e).__name__}: {str(e)[:80]}")

    # (2) / (3) three-winding transformer with an open switch at its lv side
    def t3net():
        net = pp.create_empty_network()
        hv = pp.create_bus(net, 110.); mv = pp.create_bus(net, 20.); lv = pp.create_bus(net, 10.); far = pp.create_bus(net, 20.)
        pp.create_ext_grid(net, hv, vm_pu=1.02)
        t = pp.create_transformer3w_from_parameters(net, hv, mv, lv, 110., 20., 10., 63., 40., 25., 10., 10.5, 11., .3, .32, .34, 30., .1)
        pp.create_switch(net, lv, t, "t3", closed=False)
        pp.create_line_from_parameters(net, mv, far, 5., 0.12, 0.11, 250., 0.6)
        pp.create_load(net, far, 10., 2.); pp.create_load(net, lv, 5., 1.)
        return net, (hv, mv, lv, far)
    net, buses = t3net()
    ref = copy.deepcopy(net); pp.runpp(ref)
    sub = pp.select_subnet(net, list(buses))
    pp.runpp(sub)
    if not np.allclose(sub.res_bus.vm_pu.values, ref.res_bus.vm_pu.values, atol=1e-8, equal_nan=True):
        fails.append(f"select_subnet of all buses (open t3 switch at the lv side of a trafo3w): bus voltages {np.round(sub.res_bus.vm_pu.values, 5)} "
                     f"instead of {np.round(ref.res_bus.vm_pu.values, 5)} ({len(sub.switch)} of {len(net.switch)} switches kept)")
    net, buses = t3net()
    ref = copy.deepcopy(net); pp.runpp(ref)
    pp.drop_inactive_elements(net)
    try:
        pp.runpp(net)
        common = [i for i in net.bus.index if not np.isnan(ref.res_bus.vm_pu.at[i])]
        got = net.res_bus.vm_pu.loc[common].values
        if not np.allclose(got, ref.res_bus.vm_pu.loc[common].values, atol=1e-8, equal_nan=False):
            fails.append(f"drop_inactive_elements (trafo3w with an isolated lv side): voltages of the supplied buses {np.round(got, 5)} instead of "
                         f"{np.round(ref.res_bus.vm_pu.loc[common].values, 5)}; slack {net.res_ext_grid.p_mw.sum():.4f} instead of {ref.res_ext_grid.p_mw.sum():.4f} MW")
    except Exception as e:
        fails.append(f"drop_inactive_elements (trafo3w with an isolated lv side): {type(e).__name__}: {str(e)[:80]}")
    for f in fails:
        print("REPRODUCED:", f)
    if not fails:
        print("not reproduced: the replayed transformations keep the power flow results")
    sys.exit(1 if fails else 0)


if __name__ == "__main__":
    main()
