"""Native replay for C23: line -> impedance -> line replacement keeps the power flow results.  exit 1 = reproduced."""
import sys
import copy
import numpy as np
import pandapower as pp


def _net():
    net = pp.create_empty_network()
    b = pp.create_buses(net, 5, 20.)
    pp.create_ext_grid(net, b[0], vm_pu=1.01)
    # line indices are not their positions
    pp.create_line_from_parameters(net, b[0], b[1], 2., .12, .11, 0., .6, index=5)
    pp.create_line_from_parameters(net, b[1], b[2], 7., .20, .15, 0., .6, parallel=2, index=9)
    pp.create_line_from_parameters(net, b[2], b[3], 1., .12, .11, 0., .6, index=2)
    pp.create_line_from_parameters(net, b[3], b[4], 3., .32, .09, 0., .4, index=0)
    pp.create_load(net, b[2], 2., .5); pp.create_load(net, b[4], 1.5, .4); pp.create_load(net, b[3], 1., .2)
    return net


def main():
    fails = []
    ref = _net()
    pp.runpp(ref)
    for idx in ([5, 9], [0, 2, 5, 9], [9]):
        net = _net()
        try:
            new = pp.replace_line_by_impedance(net, idx)
            pp.runpp(net)
        except Exception as e:
            fails.append(f"replace_line_by_impedance({idx}): {type(e).__name__}: {str(e)[:80]}")
            continue
        d = np.max(np.abs(net.res_bus.vm_pu.values - ref.res_bus.vm_pu.values))
        if d > 1e-8:
            fails.append(f"replace_line_by_impedance({idx}): bus voltages change by up to {d:.2e} pu")
        try:
            pp.replace_impedance_by_line(net, new)
            pp.runpp(net)
            d = np.max(np.abs(net.res_bus.vm_pu.values - ref.res_bus.vm_pu.values))
            if d > 1e-8:
                fails.append(f"line -> impedance -> line round trip ({idx}): bus voltages change by up to {d:.2e} pu")
        except Exception as e:
            fails.append(f"replace_impedance_by_line after replacing {idx}: {type(e).__name__}: {str(e)[:80]}")
    # xward -> internal elements with a per-unit base other than 1; subnet of a 60 Hz network
    for s_ in (1., 10.):
        net = pp.create_empty_network(sn_mva=s_, f_hz=60.)
        b = pp.create_buses(net, 4, 20.)
        pp.create_ext_grid(net, b[0])
        for f_, t_ in ((0, 1), (1, 2), (2, 3)):
            pp.create_line_from_parameters(net, b[f_], b[t_], 4., .12, .11, 250., .6)
        pp.create_load(net, b[3], 2., .5)
        pp.create_xward(net, b[1], 1., .3, .2, .1, 2., 4., 1.01)
        ref2 = copy.deepcopy(net); pp.runpp(ref2)
        sub = pp.select_subnet(net, list(b))
        pp.runpp(sub)
        d = np.max(np.abs(sub.res_bus.vm_pu.values - ref2.res_bus.vm_pu.values))
        if d > 1e-8:
            fails.append(f"select_subnet of all buses (f_hz=60, sn_mva={s_}): bus voltages change by up to {d:.2e} pu")
        pp.replace_xward_by_internal_elements(net); pp.runpp(net)
        d = np.max(np.abs(net.res_bus.vm_pu.values[:4] - ref2.res_bus.vm_pu.values))
        if d > 1e-8:
            fails.append(f"replace_xward_by_internal_elements (sn_mva={s_}): bus voltages change by up to {d:.2e} pu")
    for f in fails:
        print("REPRODUCED:", f)
    if not fails:
        print("not reproduced: line <-> impedance replacement keeps the power flow results")
    sys.exit(1 if fails else 0)


def main_inactive():
    """bounded stand-in: result-preserving clean-up functions on a fixed network with energised branches that end at dead buses"""
    fails = []

    def build(dead_as_from):
        net = pp.create_empty_network()
        b = pp.create_buses(net, 6, 20.)
        hv = pp.create_bus(net, 110.)
        pp.create_ext_grid(net, hv, vm_pu=1.02)
        pp.create_transformer_from_parameters(net, hv, b[0], sn_mva=25., vn_hv_kv=110., vn_lv_kv=20., vkr_percent=0.4, vk_percent=10., pfe_kw=10., i0_percent=0.05)
        for f, t in ((0, 1), (1, 2), (2, 3)):
            pp.create_line_from_parameters(net, b[f], b[t], 6., 0.12, 0.11, 260., 0.6)
        # a cable that is energised from b[3] but open at its far end (dead-end bus b[4]): it still draws charging power
        far, near = b[4], b[3]
        fb, tb = (far, near) if dead_as_from else (near, far)
        l = pp.create_line_from_parameters(net, fb, tb, 9., 0.12, 0.11, 300., 0.6)
        pp.create_switch(net, far, l, "l", closed=False)
        # an out-of-service bus with an in-service stub line
        net.bus.at[b[5], "in_service"] = False
        pp.create_line_from_parameters(net, b[5], b[2], 4., 0.12, 0.11, 280., 0.6)
        pp.create_load(net, b[2], 4., 1.); pp.create_load(net, b[3], 2., .5); pp.create_load(net, b[5], 1., .2)
        pp.create_sgen(net, b[1], 1., 0., in_service=False)
        return net
    for dead_as_from in (False, True):
        for name, op in (("drop_inactive_elements", pp.drop_inactive_elements), ("drop_out_of_service_elements", pp.drop_out_of_service_elements)):
            net = build(dead_as_from)
            ref = copy.deepcopy(net); pp.runpp(ref)
            try:
                op(net)
                pp.runpp(net)
            except Exception as e:
                fails.append(f"{name} (dead end is the {'from' if dead_as_from else 'to'} bus): {type(e).__name__}: {str(e)[:80]}")
                continue
            common = [i for i in net.bus.index if i in ref.bus.index and not np.isnan(ref.res_bus.vm_pu.at[i])]
            d = np.max(np.abs(net.res_bus.vm_pu.loc[common].values - ref.res_bus.vm_pu.loc[common].values))
            dq = abs(net.res_ext_grid.q_mvar.sum() - ref.res_ext_grid.q_mvar.sum())
            if d > 1e-8 or dq > 1e-6:
                fails.append(f"{name} (open-ended / stub line with the dead bus as its {'from' if dead_as_from else 'to'} bus): bus voltages change by "
                             f"{d:.2e} pu, slack reactive power by {dq:.4f} Mvar")
    for f in fails:
        print("REPRODUCED:", f)
    if not fails:
        print("not reproduced: dropping inactive elements keeps the power flow results")
    sys.exit(1 if fails else 0)


if __name__ == "__main__":
    main()
