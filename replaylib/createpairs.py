"""Native differential check for C24/C25: batch create functions against the sequence of single calls, elements created from
a standard type against the type's values.  exit 1 = violation reproduced.

Used as (a) replay of refuted obligations of contracts C24 / C25 and (b) bounded stand-in (fixed argument vectors, labelled
bounded in the evidence) for the create pairs that are not under a deductive contract."""
import sys
import copy
import numpy as np
import pandas as pd
import pandapower as pp

# descriptive (non-electrical) columns; their empty value differs by construction (None / "" / nan)
ELECTRICAL_SKIP = {"name", "geo", "coords", "type", "std_type", "zone", "curve_style", "generator_type"}


def base_net(n_bus=8):
    net = pp.create_empty_network()
    pp.create_buses(net, n_bus, [110., 110., 20., 20., 10., 10., 0.4, 0.4][:n_bus])
    return net


# OPF bus voltage limits: a missing limit (nan) and the documented default limit are the same constraint
# (_replace_nans_with_default_limits_in_ppc); create_bus fills the default, create_buses leaves nan
DEFAULT_EQUIV = {("bus", "max_vm_pu"): 2.0, ("bus", "min_vm_pu"): 0.0}


def _same(a, b):
    if isinstance(a, float) and isinstance(b, float) and np.isnan(a) and np.isnan(b):
        return True
    if a is None and b is None:
        return True
    try:
        if pd.isna(a) and pd.isna(b):
            return True
    except (TypeError, ValueError):
        pass
    try:
        return bool(np.isclose(float(a), float(b), rtol=1e-12, atol=0))
    except (TypeError, ValueError):
        return a == b


def compare_tables(single, batch, table, fails, tag):
    ts, tb = single[table], batch[table]
    if list(ts.index) != list(tb.index):
        fails.append(f"{tag}: {table} index differs: single {list(ts.index)} batch {list(tb.index)}")
        return
    new_rows = [i for i in ts.index if i not in base_net()[table].index] if table in base_net() else list(ts.index)
    for col in sorted(set(ts.columns) | set(tb.columns)):
        if col in ELECTRICAL_SKIP:
            continue
        for idx in new_rows:
            a = ts.at[idx, col] if col in ts.columns else np.nan
            b = tb.at[idx, col] if col in tb.columns else np.nan
            d = DEFAULT_EQUIV.get((table, col))
            if d is not None:
                a = d if pd.isna(a) else a
                b = d if pd.isna(b) else b
            if not _same(a, b):
                fails.append(f"{tag}: {table}.{col}[{idx}] single={a!r} batch={b!r}")
                break


TRAFO_TYPE = {"sn_mva": 40., "vn_hv_kv": 110., "vn_lv_kv": 20., "vk_percent": 11.2, "vkr_percent": 0.35, "pfe_kw": 22., "i0_percent": 0.07,
              "shift_degree": 150., "vector_group": "YNd5", "tap_side": "hv", "tap_neutral": 0, "tap_min": -9, "tap_max": 9,
              "tap_step_percent": 1.5, "tap_step_degree": 0.5, "tap_changer_type": "Ratio", "vk0_percent": 10., "vkr0_percent": 0.3,
              "mag0_percent": 100., "mag0_rx": 0., "si0_hv_partial": 0.9}
TRAFO3W_TYPE = {"sn_hv_mva": 63., "sn_mv_mva": 40., "sn_lv_mva": 25., "vn_hv_kv": 110., "vn_mv_kv": 20., "vn_lv_kv": 10., "vk_hv_percent": 10.4,
                "vk_mv_percent": 10.5, "vk_lv_percent": 10.6, "vkr_hv_percent": 0.28, "vkr_mv_percent": 0.32, "vkr_lv_percent": 0.35,
                "pfe_kw": 35., "i0_percent": 0.089, "shift_mv_degree": 30., "shift_lv_degree": 150., "tap_side": "mv", "tap_neutral": 1,
                "tap_min": -8, "tap_max": 10, "tap_step_percent": 1.2, "tap_step_degree": 0.2,
                "tap_changer_type": "Ratio", "vector_group": "YN0yn0d5"}
LINE_TYPE = {"r_ohm_per_km": 0.12, "x_ohm_per_km": 0.11, "c_nf_per_km": 250., "max_i_ka": 0.4, "g_us_per_km": 0.7, "type": "cs", "q_mm2": 240,
             "alpha": 0.004, "r0_ohm_per_km": 0.5, "x0_ohm_per_km": 0.4, "c0_nf_per_km": 120.}


def pairs():
    """(tag, table, single-call sequence, batch call)"""
    def trafo_std(net, batch):
        pp.create_std_type(net, dict(TRAFO_TYPE), "T-shift-tap", element="trafo")
        if batch:
            pp.create_transformers(net, [0, 1], [2, 3], "T-shift-tap", tap_pos=[3, np.nan], parallel=[1, 2])
        else:
            pp.create_transformer(net, 0, 2, "T-shift-tap", tap_pos=3, parallel=1)
            pp.create_transformer(net, 1, 3, "T-shift-tap", parallel=2)
    yield "create_transformer(s) from std type", "trafo", trafo_std

    def trafo_builtin(net, batch):
        if batch:
            pp.create_transformers(net, [0, 1], [2, 3], "63 MVA 110/20 kV")
        else:
            pp.create_transformer(net, 0, 2, "63 MVA 110/20 kV"); pp.create_transformer(net, 1, 3, "63 MVA 110/20 kV")
    yield "create_transformer(s) from built-in type", "trafo", trafo_builtin

    def trafo_par(net, batch):
        kw = dict(sn_mva=[25., 40.], vn_hv_kv=[110., 110.], vn_lv_kv=[20., 21.], vkr_percent=[0.4, 0.3], vk_percent=[12., 10.], pfe_kw=[14., 20.],
                  i0_percent=[0.07, 0.05], shift_degree=[0., 150.], tap_side=["hv", "lv"], tap_neutral=[0, 1], tap_max=[9, 5], tap_min=[-9, -5],
                  tap_step_percent=[1.5, 2.], tap_step_degree=[0., 1.], tap_pos=[np.nan, 2], tap_changer_type=["Ratio", "Symmetrical"])
        if batch:
            pp.create_transformers_from_parameters(net, [0, 1], [2, 3], **kw)
        else:
            for k in range(2):
                pp.create_transformer_from_parameters(net, [0, 1][k], [2, 3][k], **{a: v[k] for a, v in kw.items()})
    yield "create_transformer(s)_from_parameters", "trafo", trafo_par

    def t3_std(net, batch):
        pp.create_std_type(net, dict(TRAFO3W_TYPE), "T3-tap", element="trafo3w")
        if batch:
            pp.create_transformers3w(net, [0, 1], [2, 3], [4, 5], "T3-tap", tap_pos=[np.nan, 4])
        else:
            pp.create_transformer3w(net, 0, 2, 4, "T3-tap"); pp.create_transformer3w(net, 1, 3, 5, "T3-tap", tap_pos=4)
    yield "create_transformer(s)3w from std type", "trafo3w", t3_std

    def t3_par(net, batch):
        kw = dict(vn_hv_kv=[110., 110.], vn_mv_kv=[20., 20.], vn_lv_kv=[10., 10.], sn_hv_mva=[63., 40.], sn_mv_mva=[40., 25.], sn_lv_mva=[25., 16.],
                  vk_hv_percent=[10., 11.], vk_mv_percent=[10.5, 11.5], vk_lv_percent=[11., 12.], vkr_hv_percent=[.3, .31], vkr_mv_percent=[.32, .33],
                  vkr_lv_percent=[.34, .35], pfe_kw=[30., 20.], i0_percent=[.1, .08], shift_mv_degree=[0., 30.], shift_lv_degree=[0., 150.],
                  tap_side=["hv", "mv"], tap_step_percent=[1.2, 1.5], tap_step_degree=[0., .5], tap_pos=[2, np.nan], tap_neutral=[0, 1],
                  tap_max=[9, 10], tap_min=[-9, -8], tap_changer_type=["Ratio", "Ratio"])
        if batch:
            pp.create_transformers3w_from_parameters(net, [0, 1], [2, 3], [4, 5], **kw)
        else:
            for k in range(2):
                pp.create_transformer3w_from_parameters(net, [0, 1][k], [2, 3][k], [4, 5][k], **{a: v[k] for a, v in kw.items()})
    yield "create_transformer(s)3w_from_parameters", "trafo3w", t3_par

    def line_std(net, batch):
        pp.create_std_type(net, dict(LINE_TYPE), "L-full", element="line")
        if batch:
            pp.create_lines(net, [2, 3], [3, 2], [1.5, 2.5], "L-full", parallel=[1, 2], df=[1., .8])
        else:
            pp.create_line(net, 2, 3, 1.5, "L-full", parallel=1, df=1.); pp.create_line(net, 3, 2, 2.5, "L-full", parallel=2, df=.8)
    yield "create_line(s) from std type", "line", line_std

    def line_std_list(net, batch):
        pp.create_std_type(net, dict(LINE_TYPE), "L-full", element="line")
        types = ["NAYY 4x150 SE", "L-full", "L-full", "NA2XS2Y 1x240 RM/25 12/20 kV"]        # with and without zero-sequence data
        if batch:
            pp.create_lines(net, [2, 3, 2, 3], [3, 2, 3, 2], [1.5, 2.5, 1., 2.], types)
        else:
            for k in range(4):
                pp.create_line(net, [2, 3, 2, 3][k], [3, 2, 3, 2][k], [1.5, 2.5, 1., 2.][k], types[k])
    yield "create_line(s) from a list of std types with and without zero-sequence data", "line", line_std_list

    def shunts_permuted(net, batch):
        # bus labels that are a permutation of the new shunt indices; voltage ratings taken from the buses
        if batch:
            pp.create_shunts(net, [2, 0, 1], q_mvar=[1., -2., .5], p_mw=[0., .1, 0.])
        else:
            for b_, q_, p_ in zip([2, 0, 1], [1., -2., .5], [0., .1, 0.]):
                pp.create_shunt(net, b_, q_mvar=q_, p_mw=p_)
    yield "create_shunt(s) with the rated voltage taken from the buses", "shunt", shunts_permuted

    def simple(single, batch, table, kws, nbus=2, bus_arg="buses", pre=False):
        def f(net, is_batch):
            if pre:
                # the table already has a row (and a table of another element type has rows with other labels)
                getattr(pp, single)(net, 4, **{a: (v[0] if isinstance(v, list) else v) for a, v in kws.items()})
                for other, args in (("storage", dict(p_mw=1., max_e_mwh=1.)), ("load", dict(p_mw=1.))):
                    if other != table:
                        getattr(pp, "create_" + other)(net, 5, index=1, **args)
            if is_batch:
                getattr(pp, batch)(net, [2, 3], **{k: v for k, v in kws.items()})
            else:
                for k in range(2):
                    getattr(pp, single)(net, [2, 3][k], **{a: (v[k] if isinstance(v, list) else v) for a, v in kws.items()})
        return f
    yield "create_load(s)", "load", simple("create_load", "create_loads", "load", dict(p_mw=[1., 2.], q_mvar=[.1, .2], const_z_p_percent=[10., 0.],
                                                                                     const_i_p_percent=[5., 0.], scaling=[1., .5], sn_mva=[np.nan, 3.],
                                                                                     controllable=[True, False], max_p_mw=[2., np.nan]))
    yield "create_sgen(s)", "sgen", simple("create_sgen", "create_sgens", "sgen", dict(p_mw=[1., 2.], q_mvar=[.1, .2], scaling=[1., .5], sn_mva=[np.nan, 3.],
                                                                                     k=[1.2, np.nan], rx=[.1, np.nan], current_source=[True, False]))
    yield "create_gen(s)", "gen", simple("create_gen", "create_gens", "gen", dict(p_mw=[1., 2.], vm_pu=[1.01, 1.02], slack=[False, True], slack_weight=[0., 2.],
                                                                                 max_q_mvar=[1., np.nan], vn_kv=[np.nan, 20.], xdss_pu=[.2, np.nan]))
    yield "create_storage(s)", "storage", simple("create_storage", "create_storages", "storage", dict(p_mw=[1., -2.], max_e_mwh=[4., 5.], q_mvar=[.1, 0.],
                                                                                                     soc_percent=[50., np.nan], min_e_mwh=[0., 1.]))
    yield "create_shunt(s)", "shunt", simple("create_shunt", "create_shunts", "shunt", dict(q_mvar=[1., -2.], p_mw=[0., .1], vn_kv=[np.nan, 21.], step=[1, 2],
                                                                                           max_step=[1, 3]))
    yield "create_ward(s)", "ward", simple("create_ward", "create_wards", "ward", dict(ps_mw=[1., 2.], qs_mvar=[.1, .2], pz_mw=[.3, .4], qz_mvar=[.5, .6]))

    for sgl, bat, tab, kws in SIMPLE_MIN:
        yield f"{sgl}(s) into a table that already has a row", tab, simple(sgl, bat, tab, kws, pre=True)

    def buses(net, batch):
        if batch:
            pp.create_buses(net, 2, [20., .4], min_vm_pu=[.9, np.nan], max_vm_pu=[1.1, np.nan], type=["b", "n"], zone=["a", None])
        else:
            pp.create_bus(net, 20., min_vm_pu=.9, max_vm_pu=1.1, type="b", zone="a"); pp.create_bus(net, .4, type="n")
    yield "create_bus(es)", "bus", buses

    def switches(net, batch):
        pp.create_line_from_parameters(net, 2, 3, 1., .1, .1, 10., .3)
        if batch:
            pp.create_switches(net, [2, 2], [3, 0], ["b", "l"], closed=[True, False], z_ohm=[0., .1], in_ka=[np.nan, 1.])
        else:
            pp.create_switch(net, 2, 3, "b", closed=True, z_ohm=0.); pp.create_switch(net, 2, 0, "l", closed=False, z_ohm=.1, in_ka=1.)
    yield "create_switch(es)", "switch", switches

    def impedances(net, batch):
        if batch:
            pp.create_impedances(net, [2, 3], [3, 2], rft_pu=[.01, .02], xft_pu=[.03, .04], sn_mva=[10., 20.], rtf_pu=[.015, .05], xtf_pu=[.035, .06])
        else:
            pp.create_impedance(net, 2, 3, rft_pu=.01, xft_pu=.03, sn_mva=10., rtf_pu=.015, xtf_pu=.035)
            pp.create_impedance(net, 3, 2, rft_pu=.02, xft_pu=.04, sn_mva=20., rtf_pu=.05, xtf_pu=.06)
    yield "create_impedance(s)", "impedance", impedances

    def impedances0(net, batch):
        if batch:
            pp.create_impedances(net, [2, 3], [3, 2], rft_pu=[.01, .02], xft_pu=[.03, .04], sn_mva=[10., 20.], rft0_pu=[.1, .2], xft0_pu=[.3, .4],
                                 gf0_pu=[.01, .02], bf0_pu=[.03, .04])
        else:
            pp.create_impedance(net, 2, 3, rft_pu=.01, xft_pu=.03, sn_mva=10., rft0_pu=.1, xft0_pu=.3, gf0_pu=.01, bf0_pu=.03)
            pp.create_impedance(net, 3, 2, rft_pu=.02, xft_pu=.04, sn_mva=20., rft0_pu=.2, xft0_pu=.4, gf0_pu=.02, bf0_pu=.04)
    yield "create_impedance(s) with zero-sequence values", "impedance", impedances0

    def switches_t3(net, batch):
        pp.create_transformer3w_from_parameters(net, 0, 2, 4, 110., 20., 10., 63., 40., 25., 10.4, 10.5, 10.6, .28, .32, .35, 35., .089)
        if batch:
            pp.create_switches(net, [0, 4], [0, 0], ["t3", "t3"], closed=[True, False])
        else:
            pp.create_switch(net, 0, 0, "t3", closed=True); pp.create_switch(net, 4, 0, "t3", closed=False)
    yield "create_switch(es) at a three-winding transformer only", "switch", switches_t3

    def poly(net, batch):
        pp.create_gen(net, 2, 1.); pp.create_gen(net, 3, 1.)
        if batch:
            pp.create_poly_costs(net, [0, 1], "gen", [1., 2.], cp0_eur=[0., 3.], cq1_eur_per_mvar=[.1, .2], cp2_eur_per_mw2=[.01, .02])
        else:
            pp.create_poly_cost(net, 0, "gen", 1., cp0_eur=0., cq1_eur_per_mvar=.1, cp2_eur_per_mw2=.01)
            pp.create_poly_cost(net, 1, "gen", 2., cp0_eur=3., cq1_eur_per_mvar=.2, cp2_eur_per_mw2=.02)
    yield "create_poly_cost(s)", "poly_cost", poly

    def pwl(net, batch):
        pp.create_gen(net, 2, 1.); pp.create_gen(net, 3, 1.)
        if batch:
            pp.create_pwl_costs(net, [0, 1], "gen", [[[0, 1, 2.]], [[0, 1, 3.], [1, 2, 4.]]], power_type=["p", "q"])
        else:
            pp.create_pwl_cost(net, 0, "gen", [[0, 1, 2.]], power_type="p"); pp.create_pwl_cost(net, 1, "gen", [[0, 1, 3.], [1, 2, 4.]], power_type="q")
    yield "create_pwl_cost(s)", "pwl_cost", pwl


SIMPLE_MIN = [("create_load", "create_loads", "load", dict(p_mw=[1., 2.])), ("create_sgen", "create_sgens", "sgen", dict(p_mw=[1., 2.])),
              ("create_gen", "create_gens", "gen", dict(p_mw=[1., 2.], vm_pu=[1.01, 1.02])),
              ("create_storage", "create_storages", "storage", dict(p_mw=[1., -2.], max_e_mwh=[4., 5.])),
              ("create_shunt", "create_shunts", "shunt", dict(q_mvar=[1., -2.])),
              ("create_ward", "create_wards", "ward", dict(ps_mw=[1., 2.], qs_mvar=[.1, .2], pz_mw=[.3, .4], qz_mvar=[.5, .6]))]


def rejections():
    def existing_index(sgl, bat, kws, idx, other):
        def f(net, batch):
            first = {a: v[0] for a, v in kws.items()}
            getattr(pp, sgl)(net, 4, index=0, **first)              # element 0 exists
            for o, args in (("storage", dict(p_mw=1., max_e_mwh=1.)), ("load", dict(p_mw=1.))):
                if not sgl.endswith(o):
                    getattr(pp, "create_" + o)(net, 5, index=7, **args)     # label 7 is taken in tables of other element types only
            if batch:
                getattr(pp, bat)(net, [2], index=[idx], **{a: v[:1] for a, v in kws.items()})
            else:
                getattr(pp, sgl)(net, 2, index=idx, **first)
        return f
    for sgl, bat, tab, kws in SIMPLE_MIN:
        yield f"{sgl}(s): index of an existing {tab}", existing_index(sgl, bat, kws, 0, False)
        yield f"{sgl}(s): index that is free in {tab} and taken in another element table", existing_index(sgl, bat, kws, 7, True)

    """(tag, single call, batch call): both must reject (raise) or both accept"""
    def dup_poly(net, batch):
        pp.create_gen(net, 2, 1.); pp.create_gen(net, 3, 1.)
        pp.create_poly_cost(net, 1, "gen", 1.)
        if batch:
            pp.create_poly_costs(net, [0, 1], "gen", [1., 2.])
        else:
            pp.create_poly_cost(net, 0, "gen", 1.); pp.create_poly_cost(net, 1, "gen", 2.)
    yield "duplicate poly cost (existing poly cost for one element of the batch)", dup_poly

    def dup_pwl_vs_poly(net, batch):
        pp.create_gen(net, 2, 1.); pp.create_gen(net, 3, 1.)
        pp.create_pwl_cost(net, 1, "gen", [[0, 1, 1.]])
        if batch:
            pp.create_poly_costs(net, [0, 1], "gen", [1., 2.])
        else:
            pp.create_poly_cost(net, 0, "gen", 1.); pp.create_poly_cost(net, 1, "gen", 2.)
    yield "poly cost for an element that already has a pwl cost", dup_pwl_vs_poly

    def dup_poly_str(net, batch):
        pp.create_gen(net, 2, 1.); pp.create_gen(net, 3, 1.)
        pp.create_poly_cost(net, 1, "gen", 1.)
        if batch:
            pp.create_pwl_costs(net, [0, 1], "gen", [[[0, 1, 2.]], [[0, 1, 3.]]])
        else:
            pp.create_pwl_cost(net, 0, "gen", [[0, 1, 2.]]); pp.create_pwl_cost(net, 1, "gen", [[0, 1, 3.]])
    yield "pwl costs for an element that already has a poly cost", dup_poly_str

    def dup_list_et(net, batch):
        pp.create_gen(net, 2, 1.); pp.create_sgen(net, 3, 1.)
        pp.create_poly_cost(net, 0, "sgen", 1.)
        if batch:
            pp.create_poly_costs(net, [0, 0], ["gen", "sgen"], [1., 2.])
        else:
            pp.create_poly_cost(net, 0, "gen", 1.); pp.create_poly_cost(net, 0, "sgen", 2.)
    yield "poly costs with a list of element types, one of them existing", dup_list_et

    def pq_same_element(net, batch):
        pp.create_gen(net, 2, 1.)
        if batch:
            pp.create_pwl_costs(net, [0, 0], "gen", [[[0, 1, 2.]], [[0, 1, 3.]]], power_type=["p", "q"])
        else:
            pp.create_pwl_cost(net, 0, "gen", [[0, 1, 2.]], power_type="p"); pp.create_pwl_cost(net, 0, "gen", [[0, 1, 3.]], power_type="q")
    yield "p and q pwl costs of one element in one batch", pq_same_element

    def dup_in_batch(net, batch):
        pp.create_gen(net, 2, 1.)
        if batch:
            pp.create_poly_costs(net, [0, 0], "gen", [1., 2.])
        else:
            pp.create_poly_cost(net, 0, "gen", 1.); pp.create_poly_cost(net, 0, "gen", 2.)
    yield "the same element twice in one batch", dup_in_batch

    def switch_other_line(net, batch):
        # line 0 = 2-3, line 1 = 4-5: bus 4 is a bus of some listed line, not of line 0
        pp.create_line_from_parameters(net, 2, 3, 1., .1, .1, 10., .3); pp.create_line_from_parameters(net, 4, 5, 1., .1, .1, 10., .3)
        if batch:
            pp.create_switches(net, [4, 2], [0, 1], "l")
        else:
            pp.create_switch(net, 4, 0, "l"); pp.create_switch(net, 2, 1, "l")
    yield "switch at a line that is not connected to the switch's bus (another listed line is)", switch_other_line

    def missing_bus(net, batch):
        if batch:
            pp.create_loads(net, [2, 77], p_mw=[1., 2.])
        else:
            pp.create_load(net, 2, 1.); pp.create_load(net, 77, 2.)
    yield "load at a non-existent bus", missing_bus

    def dup_index(net, batch):
        if batch:
            pp.create_sgens(net, [2, 3], p_mw=[1., 2.], index=[4, 4])
        else:
            pp.create_sgen(net, 2, 1., index=4); pp.create_sgen(net, 3, 2., index=4)
    yield "duplicate index", dup_index


def main_pairs(only=None, skip=()):
    fails = []
    for tag, table, f in pairs():
        if only and only not in tag:
            continue
        if any(sk in tag for sk in skip):
            continue
        s, b = base_net(), base_net()
        try:
            f(s, False)
        except Exception as e:
            fails.append(f"{tag}: single calls raised {type(e).__name__}: {e}")
            continue
        try:
            f(b, True)
        except Exception as e:
            fails.append(f"{tag}: batch call raised {type(e).__name__}: {str(e)[:150]} where the single calls succeed")
            continue
        compare_tables(s, b, table, fails, tag)
    for tag, f in rejections():
        if only and only not in tag:
            continue
        res = []
        for batch in (False, True):
            net = base_net()
            try:
                f(net, batch)
                res.append(None)
            except Exception as e:
                res.append(type(e).__name__)
        if (res[0] is None) != (res[1] is None):
            fails.append(f"{tag}: single calls {'accept' if res[0] is None else 'reject (' + res[0] + ')'}, batch call "
                         f"{'accepts' if res[1] is None else 'rejects (' + res[1] + ')'}")
    return _report(fails, "batch create functions equal the single calls on all replay vectors")


def main_std_types(only=None):
    """C25: every parameter defined by the type that is a column of the element table is applied"""
    fails = []
    for element, typ, mk in (("line", LINE_TYPE, lambda net, name: pp.create_line(net, 2, 3, 1.2, name)),
                             ("trafo", TRAFO_TYPE, lambda net, name: pp.create_transformer(net, 0, 2, name)),
                             ("trafo3w", TRAFO3W_TYPE, lambda net, name: pp.create_transformer3w(net, 0, 2, 4, name))):
        if only and only != element:
            continue
        net = base_net()
        pp.create_std_type(net, dict(typ), "T1", element=element)
        if pp.load_std_type(net, "T1", element) != typ:
            fails.append(f"{element}: load_std_type does not return the created type unchanged")
        idx = mk(net, "T1")
        cols = set(net[element].columns)
        for p, v in typ.items():
            if p in cols and not _same(net[element].at[idx, p], v):
                fails.append(f"{element}: created from type: {p} = {net[element].at[idx, p]!r}, type defines {v!r}")
        # the batch create functions apply the type as well 
        bmk = {"line": lambda n_: pp.create_lines(n_, [2, 3], [3, 2], [1.2, 0.7], "T1"),
               "trafo": lambda n_: pp.create_transformers(n_, [0, 1], [2, 3], "T1"),
               "trafo3w": lambda n_: pp.create_transformers3w(n_, [0, 1], [2, 3], [4, 5], "T1")}.get(element)
        # create_transformers: shift / tap data of the type are the recorded known finding of C24 and are not repeated here
        dropped = ("shift_degree", "tap_side", "tap_neutral", "tap_min", "tap_max", "tap_step_percent", "tap_step_degree", "tap_changer_type",
                   "tap_pos") if element == "trafo" else ()
        if bmk is not None:
            nb = base_net()
            pp.create_std_type(nb, dict(typ), "T1", element=element)
            for bi in bmk(nb):
                for p, v in typ.items():
                    if p in dropped or p not in (cols | set(nb[element].columns)):
                        continue        # cols: the columns the element table has after the single create call
                    got = nb[element].at[bi, p] if p in nb[element].columns else np.nan
                    if not _same(got, v):
                        fails.append(f"{element}: batch-created from type: {p}[{bi}] = {got!r}, type defines {v!r}")
        # change_std_type to a second type with other values, then back after redefinition under the same name
        t2 = {k: (v * 1.25 if isinstance(v, float) else v) for k, v in typ.items()}
        pp.create_std_type(net, t2, "T2", element=element)
        pp.change_std_type(net, idx, "T2", element=element)
        for p, v in t2.items():
            if p in cols and not _same(net[element].at[idx, p], v):
                fails.append(f"{element}: change_std_type: {p} = {net[element].at[idx, p]!r}, type defines {v!r}")
        t3 = {k: (v * 0.5 if isinstance(v, float) else v) for k, v in typ.items()}
        pp.create_std_type(net, t3, "T2", element=element, overwrite=True)
        pp.change_std_type(net, idx, "T2", element=element)
        for p, v in t3.items():
            if p in cols and not _same(net[element].at[idx, p], v):
                fails.append(f"{element}: change_std_type to a redefined type of the same name: {p} = {net[element].at[idx, p]!r}, type defines {v!r}")
        if net[element].at[idx, "std_type"] != "T2":
            fails.append(f"{element}: std_type column not updated")
        pp.rename_std_type(net, "T2", "T9", element=element)
        if pp.load_std_type(net, "T9", element) != t3 or net[element].at[idx, "std_type"] != "T9":
            fails.append(f"{element}: rename_std_type changed the type data or lost the reference")
        n2 = base_net()
        pp.copy_std_types(n2, net, element=element)
        if pp.load_std_type(n2, "T9", element) != t3:
            fails.append(f"{element}: copy_std_types changed the type data")
        # re-define a type under its name with fewer parameters (in the net it was copied to): nothing of the old definition survives, and
        # the net it was copied from keeps its own definition
        optional = [k for k in t3 if k.startswith(("r0_", "x0_", "c0_", "g_us", "vk0", "vkr0", "mag0", "si0", "vector_group", "tap_", "alpha",
                                                   "endtemp", "type", "q_mm2"))]
        t4 = {k: (v * 2. if isinstance(v, float) else v) for k, v in t3.items() if k not in optional[:3]}
        if len(t4) < len(t3):
            pp.create_std_type(n2, dict(t4), "T9", element=element, overwrite=True, check_required=False)
            got = pp.load_std_type(n2, "T9", element)
            if got != t4:
                fails.append(f"{element}: load_std_type after re-defining an existing type returns {sorted(set(got) - set(t4))} that the new "
                             f"definition does not contain" if set(got) - set(t4) else f"{element}: re-defined type differs from its definition")
            if pp.load_std_type(net, "T9", element) != t3:
                fails.append(f"{element}: re-defining a type in the net it was copied to changed the type in the net it was copied from")
            pp.create_std_type(n2, dict(t3), "T9", element=element, overwrite=False, check_required=False)
            if pp.load_std_type(n2, "T9", element) != t4:
                fails.append(f"{element}: create_std_type(overwrite=False) changed an existing type")
    return _report(fails, "standard types are applied completely on all replay vectors")


def _report(fails, ok):
    for f in fails:
        print("REPRODUCED:", f)
    if not fails:
        print("not reproduced:", ok)
    sys.exit(1 if fails else 0)


if __name__ == "__main__":
    {"pairs": main_pairs, "std": main_std_types}[sys.argv[1]](sys.argv[2] if len(sys.argv) > 2 else None)


# ---- generic replay for the pairs that take their parameters as arguments (contracts/C24_pairs.py) ---------------------------------------
PAR_PAIRS = {"load": ("create_load", "create_loads"), "sgen": ("create_sgen", "create_sgens"), "gen": ("create_gen", "create_gens"),
             "storage": ("create_storage", "create_storages"), "shunt": ("create_shunt", "create_shunts"), "ward": ("create_ward", "create_wards"),
             "impedance": ("create_impedance", "create_impedances"), "line": ("create_line_from_parameters", "create_lines_from_parameters"),
             "trafo": ("create_transformer_from_parameters", "create_transformers_from_parameters")}
_PAR_SKIP = {"net", "name", "index", "type", "geodata", "coords", "zone", "kwargs", "generator_type", "curve_style", "reactive_capability_curve",
             "id_q_capability_characteristic", "tap_side", "tap2_side", "tap_changer_type", "tap2_changer_type", "vector_group", "id_characteristic_table",
             "step_dependency_table", "tap_dependency_table"}


def _par_vectors(sgl, n, pattern):
    """argument vectors for every numeric / flag parameter of the single function (read from the real signature)
    pattern: 'given' all values given, 'mixed' NaN-able / optional parameters given for even rows only, 'required' only required parameters"""
    import inspect
    sig = inspect.signature(getattr(pp, sgl))
    pos, kw = [], {}
    for j, (name, prm) in enumerate(sig.parameters.items()):
        if name in _PAR_SKIP or prm.kind is prm.VAR_KEYWORD:
            continue
        ann = str(prm.annotation)
        if prm.default is prm.empty:
            if ann.startswith("Int") or name.endswith("bus"):
                pos.append((name, None))        # bus arguments are filled by the caller
            else:
                pos.append((name, [round(0.5 + 0.125 * j + 0.25 * k, 4) for k in range(n)]))
            continue
        if pattern == "required":
            continue
        optional = prm.default is None or (isinstance(prm.default, float) and prm.default != prm.default)
        if isinstance(prm.default, bool):
            vals = [k % 2 == 0 for k in range(n)]
        elif "bool" in ann and "float" in ann:      # controllable: bool | float = nan
            vals = [True if k % 2 == 0 else np.nan for k in range(n)] if pattern == "mixed" else [k % 3 == 0 for k in range(n)]
        else:
            vals = [round(0.5 + 0.125 * j + 0.25 * k, 4) for k in range(n)]
            if name == "power_station_trafo" or isinstance(prm.default, int) and not isinstance(prm.default, bool) or name.startswith("tap") and "percent" not in name and "degree" not in name:
                vals = [float(j % 3 + k) for k in range(n)]
            if optional and pattern == "mixed":
                if prm.default is None:
                    continue                                   # a None default cannot be mixed with numbers in one batch vector
                vals = [v if k % 2 == 0 else np.nan for k, v in enumerate(vals)]
        kw[name] = vals
    return pos, kw


def main_parpair(table, patterns=("given", "mixed", "required"), prefill=(False, True)):
    sgl, bat = PAR_PAIRS[table]
    fails = []
    n = 3
    bus_sets = [[2, 3, 2], [3, 2, 3]]
    for pattern in patterns:
        for pre in prefill:
            tag = f"{sgl}(s) [{pattern}{', table has a row with every optional column' if pre else ''}]"
            pos, kw = _par_vectors(sgl, n, pattern)
            nets = []
            err = []
            for batch in (False, True):
                net = base_net()
                try:
                    if pre:
                        ppos, pkw = _par_vectors(sgl, 1, "given")
                        nb = iter(bus_sets)
                        getattr(pp, sgl)(net, *[(next(nb)[0] if v is None else v[0]) for _, v in ppos], **{a: v[0] for a, v in pkw.items()})
                    nb = iter(bus_sets)
                    args = [(next(nb) if v is None else v) for _, v in pos]
                    if batch:
                        getattr(pp, bat)(net, *args, **kw)
                    else:
                        for k in range(n):
                            getattr(pp, sgl)(net, *[a[k] for a in args], **{a: v[k] for a, v in kw.items()})
                    err.append(None)
                except Exception as e:
                    err.append(f"{type(e).__name__}: {str(e)[:120]}")
                nets.append(net)
            if err[0] is not None and err[1] is not None:
                continue                # both reject the vector
            if err[0] is not None or err[1] is not None:
                fails.append(f"{tag}: single calls {'raise ' + err[0] if err[0] else 'succeed'}, batch call {'raises ' + err[1] if err[1] else 'succeeds'}")
                continue
            compare_tables(nets[0], nets[1], table, fails, tag)
    return _report(fails, f"{bat} equals the sequence of {sgl} calls on the generated vectors")


def main_parpairs_all(skip=()):
    rc = 0
    for t in PAR_PAIRS:
        if t in skip:
            continue
        try:
            main_parpair(t)
        except SystemExit as e:
            rc = rc or (e.code or 0)
    sys.exit(rc)


def main_buspair():
    """create_bus / create_buses on generated vectors (NaN voltage limits and the defaults 0.0 / 2.0 count as equal, DEFAULT_EQUIV)"""
    fails = []
    vecs = {"all given": dict(in_service=[True, False, True], min_vm_pu=[.9, .92, .95], max_vm_pu=[1.1, 1.08, 1.05]),
            "limits partly NaN": dict(in_service=[False, True, True], min_vm_pu=[.9, np.nan, .95], max_vm_pu=[np.nan, 1.08, np.nan]),
            "required only": {}}
    vn = [20., .4, 10.]
    for tag, kw in vecs.items():
        s, b = base_net(), base_net()
        for k in range(3):
            pp.create_bus(s, vn[k], **{a: v[k] for a, v in kw.items()})
        pp.create_buses(b, 3, vn, **kw)
        compare_tables(s, b, "bus", fails, f"create_bus(es) [{tag}]")
    return _report(fails, "create_buses equals the sequence of create_bus calls on the generated vectors")
