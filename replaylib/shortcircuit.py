"""Native replay for C18: IEC 60909 relations of calc_sc results and independence of the inverse_y option.  exit 1 = reproduced."""
import sys
import numpy as np
import pandapower as pp
import pandapower.shortcircuit as sc


def _net():
    net = pp.create_empty_network(sn_mva=10.)
    hv = pp.create_bus(net, 110.)
    b = pp.create_buses(net, 5, 20.)
    pp.create_ext_grid(net, hv, s_sc_max_mva=2500., rx_max=0.12, s_sc_min_mva=1500., rx_min=0.15)
    pp.create_transformer_from_parameters(net, hv, b[0], sn_mva=40., vn_hv_kv=110., vn_lv_kv=20., vkr_percent=0.4, vk_percent=12., pfe_kw=20.,
                                          i0_percent=0.05, shift_degree=0.)
    for f, t, L in ((0, 1, 4.), (1, 2, 3.), (2, 3, 5.), (3, 0, 6.), (1, 4, 2.), (4, 3, 2.5)):       # meshed
        pp.create_line_from_parameters(net, b[f], b[t], L, 0.16, 0.12, 210., 0.4, endtemp_degree=80.)
    return net


def main():
    fails = []
    for fault in ("3ph", "2ph"):
        for case in ("max", "min"):
            res = {}
            for inv in (True, False):
                net = _net()
                sc.calc_sc(net, fault=fault, case=case, ip=True, ith=True, inverse_y=inv, kappa_method="C")
                res[inv] = net.res_bus_sc.copy()
                r = net.res_bus_sc
                kappa = r.ip_ka / (np.sqrt(2) * r.ikss_ka)
                if ((kappa < 1.02 - 1e-9) | (kappa > 2 + 1e-9)).any():
                    fails.append(f"{fault}/{case}, inverse_y={inv}: kappa = ip/(sqrt(2) ikss) outside [1.02, 2]")
                if fault == "3ph":
                    c = 1.1 if case == "max" else 1.0
                    zk = np.sqrt(r.rk_ohm ** 2 + r.xk_ohm ** 2)
                    ik = c * net.bus.vn_kv / (np.sqrt(3) * zk)
                    if not np.allclose(r.ikss_ka.values, ik.values, rtol=1e-6):
                        fails.append(f"{fault}/{case}, inverse_y={inv}: ikss != c Un / (sqrt(3) |Zk|)")
                    if not np.allclose(r.skss_mw.values, np.sqrt(3) * net.bus.vn_kv.values * r.ikss_ka.values, rtol=1e-6):
                        fails.append(f"{fault}/{case}, inverse_y={inv}: skss != sqrt(3) Un ikss")
            for col in res[True].columns:
                a, b = res[True][col].values, res[False][col].values
                if not np.allclose(a, b, rtol=1e-6, atol=1e-9, equal_nan=True):
                    fails.append(f"{fault}/{case}: {col} depends on inverse_y (max abs diff {np.nanmax(np.abs(a - b)):.3g})")
        if fault == "2ph":
            pass
    n3, n2 = _net(), _net()
    sc.calc_sc(n3, fault="3ph", case="max"); sc.calc_sc(n2, fault="2ph", case="max")
    if not np.allclose(n2.res_bus_sc.ikss_ka.values, np.sqrt(3) / 2 * n3.res_bus_sc.ikss_ka.values, rtol=1e-6):
        fails.append("2ph current is not sqrt(3)/2 of the 3ph current")
    for f in fails:
        print("REPRODUCED:", f)
    if not fails:
        print("not reproduced: short-circuit relations hold and results do not depend on inverse_y")
    sys.exit(1 if fails else 0)


def main_feeders():
    """several network feeders on one node (two ext_grid rows at a bus; ext_grids on buses fused by a bus-bus switch): the fault at that node
    sees the feeders in parallel -- compared with hand-computed IEC 60909 feeder impedances Z = c Un^2 / S''k, R / X = rx"""
    import numpy as np
    import pandapower as pp
    import pandapower.shortcircuit as sc
    fails = []
    feeders = [(1000., 0.1, 800., 0.2), (400., 0.3, 250., 0.35)]
    for layout in ("same bus", "fused buses"):
        for case in ("max", "min"):
            net = pp.create_empty_network()
            b0 = pp.create_bus(net, 20.)
            b1 = pp.create_bus(net, 20.) if layout == "fused buses" else b0
            if b1 != b0:
                pp.create_switch(net, b0, b1, et="b", closed=True)
            far = pp.create_bus(net, 20.)
            pp.create_line_from_parameters(net, b0, far, 4., 0.2, 0.3, 100., 0.4, endtemp_degree=80.)
            for bus, (smax, rxmax, smin, rxmin) in zip((b0, b1), feeders):
                pp.create_ext_grid(net, bus, s_sc_max_mva=smax, rx_max=rxmax, s_sc_min_mva=smin, rx_min=rxmin)
            c = 1.1 if case == "max" else 1.0
            y = 0.
            for smax, rxmax, smin, rxmin in feeders:
                s_sc, rx = (smax, rxmax) if case == "max" else (smin, rxmin)
                zabs = c * 20. ** 2 / s_sc
                x = zabs / np.sqrt(rx ** 2 + 1)
                y += 1 / (rx * x + 1j * x)
            want = abs(c * 20. / (np.sqrt(3) * abs(1 / y)))
            for inv in (True, False):
                sc.calc_sc(net, case=case, inverse_y=inv, bus=[b0])
                got = net.res_bus_sc.ikss_ka.at[b0]
                if not np.isclose(got, want, rtol=1e-6):
                    fails.append(f"{layout}, case {case}, inverse_y={inv}: ikss at the feeder node = {got:.5f} kA, two parallel feeders give {want:.5f} kA")
    for f in fails:
        print("REPRODUCED:", f)
    if not fails:
        print("not reproduced: parallel network feeders add their admittances")
    sys.exit(1 if fails else 0)


def main_sgen():
    """an asynchronous / doubly-fed sgen at the bus of a network feeder: the feeder's contribution must not vanish"""
    import numpy as np
    import pandapower as pp
    import pandapower.shortcircuit as sc
    fails = []
    for gtype, kw in (("async", dict(lrc_pu=5., rx=0.1, sn_mva=3.)), ("async_doubly_fed", dict(kappa=1.7, max_ik_ka=0.3, rx=0.1, sn_mva=3.))):
        def build(with_sgen):
            net = pp.create_empty_network()
            b0 = pp.create_bus(net, 20.); b1 = pp.create_bus(net, 20.)
            pp.create_ext_grid(net, b0, s_sc_max_mva=500., rx_max=0.1)
            pp.create_line_from_parameters(net, b0, b1, 4., 0.2, 0.3, 100., 0.4, endtemp_degree=80.)
            if with_sgen:
                pp.create_sgen(net, b0, p_mw=2., sn_mva=kw["sn_mva"], generator_type=gtype, current_source=False, **{k: v for k, v in kw.items() if k != "sn_mva"})
            return net, b0
        ref, b0 = build(False)
        sc.calc_sc(ref, case="max", bus=[b0])
        net, b0 = build(True)
        sc.calc_sc(net, case="max", bus=[b0])
        a, b = ref.res_bus_sc.ikss_ka.at[b0], net.res_bus_sc.ikss_ka.at[b0]
        if b < a - 1e-9:
            fails.append(f"{gtype} sgen at the feeder bus: ikss falls from {a:.3f} kA (feeder alone) to {b:.3f} kA when the sgen is added")
    for f in fails:
        print("REPRODUCED:", f)
    if not fails:
        print("not reproduced: converter / asynchronous sources add to the short-circuit current of their bus")
    sys.exit(1 if fails else 0)


def main_gens_at_one_bus():
    """two different synchronous generators at one bus: the short-circuit result does not depend on their order in net.gen, and equals the
    result with each generator at its own bus joined by a closed bus-bus switch"""
    import numpy as np
    import pandapower as pp
    import pandapower.shortcircuit as sc
    fails = []
    g1 = dict(p_mw=5., vn_kv=10.5, sn_mva=10., xdss_pu=0.12, rdss_ohm=0.05, cos_phi=0.8)
    g2 = dict(p_mw=8., vn_kv=10., sn_mva=30., xdss_pu=0.25, rdss_ohm=0.02, cos_phi=0.95)

    def build(order, split=False):
        net = pp.create_empty_network()
        b0 = pp.create_bus(net, 10.); b1 = pp.create_bus(net, 10.)
        pp.create_line_from_parameters(net, b0, b1, 2., 0.2, 0.3, 100., 0.4, endtemp_degree=80.)
        pp.create_ext_grid(net, b1, s_sc_max_mva=100., rx_max=0.1)
        second = b0
        if split:
            second = pp.create_bus(net, 10.)
            pp.create_switch(net, b0, second, "b", closed=True)
        for k, g in enumerate(order):
            pp.create_gen(net, b0 if k == 0 else second, **g)
        sc.calc_sc(net, case="max", bus=[b0])
        return net.res_bus_sc.ikss_ka.at[b0]
    a, b, c = build([g1, g2]), build([g2, g1]), build([g1, g2], split=True)
    if abs(a - b) > 1e-6:
        fails.append(f"two generators at one bus: ikss = {a:.4f} kA with the generators in one order, {b:.4f} kA in the other")
    if abs(a - c) > 1e-6 and abs(b - c) > 1e-6:
        fails.append(f"two generators at one bus: ikss = {a:.4f} / {b:.4f} kA, with the second generator on a bus fused by a bus-bus switch {c:.4f} kA")
    for f in fails:
        print("REPRODUCED:", f)
    if not fails:
        print("not reproduced: generators sharing a bus are corrected individually")
    sys.exit(1 if fails else 0)


if __name__ == "__main__":
    main()


def main_kappa_b():
    """peak current with kappa method B (meshed network detection on a graph of the ppc): independent of net.sn_mva"""
    import pandapower.shortcircuit as sc
    fails = []
    res = {}
    for sn in (1., 10., 100.):
        net = pp.create_empty_network(sn_mva=sn)
        b1 = pp.create_bus(net, 110.); b2 = pp.create_bus(net, 20.); b3 = pp.create_bus(net, 20.)
        pp.create_ext_grid(net, b1, s_sc_max_mva=1000., s_sc_min_mva=800., rx_max=0.1, rx_min=0.2)
        pp.create_transformer_from_parameters(net, b1, b2, sn_mva=40., vn_hv_kv=110., vn_lv_kv=20., vkr_percent=0.3, vk_percent=12., pfe_kw=20.,
                                              i0_percent=0.05)
        for _ in range(2):
            pp.create_line_from_parameters(net, b2, b3, length_km=4., r_ohm_per_km=0.2, x_ohm_per_km=0.35, c_nf_per_km=10., max_i_ka=0.3,
                                           endtemp_degree=80.)
        sc.calc_sc(net, fault="3ph", case="max", ip=True, kappa_method="B", topology="auto")
        res[sn] = (float(net.res_bus_sc.ikss_ka.at[b3]), float(net.res_bus_sc.ip_ka.at[b3]))
    ref = res[1.]
    for sn, (ik, ip) in res.items():
        if not (np.isclose(ik, ref[0], rtol=1e-9) and np.isclose(ip, ref[1], rtol=1e-9)):
            fails.append(f"calc_sc(ip=True, kappa_method='B', topology='auto'), fault behind two parallel lines: net.sn_mva = 1: ikss = {ref[0]:.5f} kA, "
                         f"ip = {ref[1]:.5f} kA; net.sn_mva = {sn}: ikss = {ik:.5f} kA, ip = {ip:.5f} kA")
    for f in fails:
        print("REPRODUCED:", f)
    if not fails:
        print("not reproduced: the peak current with kappa method B does not depend on net.sn_mva")
    sys.exit(1 if fails else 0)
