"""Native replay for C11: runpp_3ph on a symmetric network against runpp.  exit 1 = reproduced."""
import sys
import numpy as np
import pandapower as pp
from pandapower.pf.runpp_3ph import runpp_3ph


def _net0():
    net = pp.create_empty_network(sn_mva=10.)
    hv = pp.create_bus(net, 110.); b = pp.create_buses(net, 3, 20.)
    pp.create_ext_grid(net, hv, vm_pu=1.0, s_sc_max_mva=5000., rx_max=0.1, r0x0_max=0.1, x0x_max=1.0)
    pp.create_std_type(net, {"sn_mva": 40., "vn_hv_kv": 110., "vn_lv_kv": 20., "vk_percent": 12., "vkr_percent": 0.4, "pfe_kw": 20., "i0_percent": 0.05,
                             "shift_degree": 0., "vector_group": "YNyn", "tap_side": "hv", "tap_neutral": 0, "tap_min": -2, "tap_max": 2,
                             "tap_step_degree": 0., "tap_step_percent": 2.5, "tap_changer_type": "Ratio", "vk0_percent": 12., "vkr0_percent": 0.4,
                             "mag0_percent": 100., "mag0_rx": 0., "si0_hv_partial": 0.9}, "T", "trafo")
    pp.create_transformer(net, hv, b[0], "T")
    pp.create_std_type(net, {"r_ohm_per_km": 0.12, "x_ohm_per_km": 0.11, "c_nf_per_km": 250., "max_i_ka": 0.4, "r0_ohm_per_km": 0.5,
                             "x0_ohm_per_km": 0.4, "c0_nf_per_km": 120.}, "L", "line")
    pp.create_line(net, b[0], b[1], 3., "L"); pp.create_line(net, b[1], b[2], 2., "L")
    pp.create_load(net, b[1], 3., 1.); pp.create_load(net, b[2], 2., .5); pp.create_sgen(net, b[2], 1., 0.)
    return net


def _net(fused=False):
    net = _net0()
    if fused:
        # a second busbar section coupled by a closed bus-bus switch: both pandapower buses are one electrical node
        b2 = pp.create_bus(net, 20.)
        pp.create_switch(net, 2, b2, et="b", closed=True)
        pp.create_load(net, b2, 1.5, .4); pp.create_sgen(net, b2, .5, .1); pp.create_load(net, b2, .7, .2, type="delta")
        pp.create_load(net, 2, .4, .1, type="delta")
    return net


def _scenario(fused, fails):
    tag = "symmetric network" + (" with two busbar sections coupled by a closed bus-bus switch" if fused else "")
    net = _net(fused)
    pp.runpp(net, calculate_voltage_angles=True)
    n3 = _net(fused)
    runpp_3ph(n3)
    _compare(net, n3, tag, fails)
    if fused:
        # unbalanced: the per-phase powers delivered by the lines into the fused node equal what its elements take
        nu = _net(True)
        pp.create_asymmetric_load(nu, 2, p_a_mw=.3, q_a_mvar=.1, p_b_mw=.1, q_b_mvar=.0, p_c_mw=.2, q_c_mvar=.05)
        pp.create_asymmetric_load(nu, 4, p_a_mw=.1, q_a_mvar=.0, p_b_mw=.4, q_b_mvar=.1, p_c_mw=.2, q_c_mvar=.1)
        runpp_3ph(nu)
        for ph in "abc":
            into = -nu.res_line_3ph[f"p_{ph}_to_mw"].values[nu.line.to_bus.values == 2].sum() \
                   - nu.res_line_3ph[f"p_{ph}_from_mw"].values[nu.line.from_bus.values == 2].sum()
            taken = (nu.load.p_mw[nu.load.bus.isin([2, 4])].sum() - nu.sgen.p_mw[nu.sgen.bus.isin([2, 4])].sum()) / 3 \
                + nu.asymmetric_load[f"p_{ph}_mw"][nu.asymmetric_load.bus.isin([2, 4])].sum()
            if abs(into - taken) > 1e-4:
                fails.append(f"unbalanced network, coupled busbar sections: phase {ph} lines deliver {into:.5f} MW into the node, its "
                             f"elements take {taken:.5f} MW")


def main():
    fails = []
    for fused in (False, True):
        _scenario(fused, fails)
    for f in fails:
        print("REPRODUCED:", f)
    if not fails:
        print("not reproduced: the three-phase power flow of a symmetric network equals the symmetric power flow")
    sys.exit(1 if fails else 0)


def _compare(net, n3, tag, fails):
    r = n3.res_bus_3ph
    vm = net.res_bus.vm_pu.values
    for ph in "abc":
        if not np.allclose(r[f"vm_{ph}_pu"].values, vm, atol=1e-5):
            fails.append(f"{tag}: vm_{ph}_pu differs from the symmetric power flow by {np.max(np.abs(r[f'vm_{ph}_pu'].values - vm)):.2e}")
    d = lambda x: (x + 180.) % 360. - 180.
    if not np.allclose(d(r.va_b_degree.values - r.va_a_degree.values), -120., atol=1e-4) or \
            not np.allclose(d(r.va_c_degree.values - r.va_a_degree.values), 120., atol=1e-4):
        fails.append(f"{tag}: phase angles are not shifted by -120 / +120 degrees")
    rl, r3 = net.res_line, n3.res_line_3ph
    for ph in "abc":
        if not np.allclose(r3[f"p_{ph}_from_mw"].values, rl.p_from_mw.values / 3, atol=1e-5):
            fails.append(f"{tag}: p_{ph}_from_mw of the lines is not one third of the symmetric result")
    tot = sum(r3[f"p_{ph}_from_mw"].values for ph in "abc")
    if not np.allclose(tot, rl.p_from_mw.values, atol=1e-5):
        fails.append("per-phase line powers do not add up to the symmetric total")


def _slack_balance(n3, tag, fails):
    """per phase: what the ext_grids deliver = what the branches take from the slack bus + what the elements at the slack bus take"""
    hv = int(n3.ext_grid.bus.iat[0])
    for ph in "abc":
        eg = n3.res_ext_grid_3ph[f"p_{ph}_mw"].values
        eg = np.nansum(eg)
        branches = n3.res_trafo_3ph[f"p_{ph}_hv_mw"].values[n3.trafo.hv_bus.values == hv].sum()
        elements = (n3.load.p_mw[(n3.load.bus == hv) & n3.load.in_service].sum() - n3.sgen.p_mw[(n3.sgen.bus == hv) & n3.sgen.in_service].sum()) / 3 + \
            n3.asymmetric_load[f"p_{ph}_mw"][n3.asymmetric_load.bus == hv].sum()
        if abs(eg - branches - elements) > 1e-4:
            fails.append(f"{tag}: phase {ph}: the ext_grids deliver {eg:.5f} MW, the transformer takes {branches:.5f} MW and the elements at the "
                         f"ext_grid bus take {elements:.5f} MW")
            return


def main_more():
    """elements at the ext_grid bus, several ext_grids, connection types other than the literal 'wye' / 'delta'"""
    fails = []
    # (1) load and sgen at the ext_grid bus
    for asym in (False, True):
        n3 = _net0()
        pp.create_load(n3, 0, 6., 2.); pp.create_sgen(n3, 0, 1.5, 0.)
        if asym:
            pp.create_asymmetric_load(n3, 0, p_a_mw=1.2, q_a_mvar=.3, p_b_mw=.3, q_b_mvar=.1, p_c_mw=.6, q_c_mvar=.2)
        runpp_3ph(n3)
        _slack_balance(n3, "load and sgen at the ext_grid bus" + (" plus an asymmetric load" if asym else ""), fails)
        if not asym:
            net = _net0()
            pp.create_load(net, 0, 6., 2.); pp.create_sgen(net, 0, 1.5, 0.)
            pp.runpp(net, calculate_voltage_angles=True)
            for ph in "abc":
                if not np.isclose(n3.res_ext_grid_3ph[f"p_{ph}_mw"].iat[0], net.res_ext_grid.p_mw.iat[0] / 3, atol=1e-4):
                    fails.append(f"load and sgen at the ext_grid bus: res_ext_grid_3ph.p_{ph}_mw = {n3.res_ext_grid_3ph[f'p_{ph}_mw'].iat[0]:.5f}, one "
                                 f"third of the symmetric result is {net.res_ext_grid.p_mw.iat[0] / 3:.5f}")
                    break
    # (2) an out-of-service ext_grid listed before the one in service; two ext_grids at one bus
    n3 = _net0()
    n3.ext_grid = n3.ext_grid.iloc[0:0]
    kw = dict(vm_pu=1.0, s_sc_max_mva=5000., rx_max=0.1, r0x0_max=0.1, x0x_max=1.0)
    pp.create_ext_grid(n3, 0, in_service=False, **kw); pp.create_ext_grid(n3, 0, **kw)
    runpp_3ph(n3)
    net = _net0(); pp.runpp(net, calculate_voltage_angles=True)
    got = n3.res_ext_grid_3ph.p_a_mw.values
    if not (np.isclose(np.nan_to_num(got[0]), 0., atol=1e-6) and np.isclose(got[1], net.res_ext_grid.p_mw.iat[0] / 3, atol=1e-4)):
        fails.append(f"an out-of-service ext_grid listed before the one in service: res_ext_grid_3ph.p_a_mw = {got.tolist()}, expected "
                     f"[0 or NaN, {net.res_ext_grid.p_mw.iat[0] / 3:.5f}]")
    n3 = _net0()
    pp.create_ext_grid(n3, 0, **kw)
    runpp_3ph(n3)
    _slack_balance(n3, "two ext_grids at one bus", fails)
    # (3) connection types that are neither the literal 'wye' nor 'delta' (e.g. the sgen types 'PV' / 'WP' of the example networks)
    for typ in ("PV", None):
        net = _net0(); net.sgen["type"] = typ
        pp.runpp(net, calculate_voltage_angles=True)
        n3 = _net0(); n3.sgen["type"] = typ
        runpp_3ph(n3)
        _compare(net, n3, f"sgen with type {typ!r}", fails)
    for f in fails:
        print("REPRODUCED:", f)
    if not fails:
        print("not reproduced: slack-bus balance per phase, ext_grid rows and untyped elements agree")
    sys.exit(1 if fails else 0)


if __name__ == "__main__":
    main()
